"""py7zr header objects <-> the token format of the Lean driver; header generators."""
import io

import py7zr.archiveinfo as ai
from py7zr.exceptions import Bad7zFile

from common import hexs


def nats(ns):
    return ",".join(str(int(n)) for n in ns) or "-"


def bits(bs):
    return "".join("1" if b else "0" for b in bs) or "-"


def opt_hex(b):
    return "N" if b is None else hexs(bytes(b))


def d_coder(c):
    return "C %s %d %d %s" % (hexs(c["method"]), c["numinstreams"], c["numoutstreams"], opt_hex(c.get("properties")))


def d_folder(f):
    parts = ["F %d" % len(f.coders)]
    parts += [d_coder(c) for c in f.coders]
    parts.append(str(len(f.bindpairs)))
    parts += ["%d %d" % (b.incoder, b.outcoder) for b in f.bindpairs]
    parts += [nats(f.packed_indices), nats(f.unpacksizes), "1" if f.digestdefined else "0",
              "N" if f.crc is None else str(f.crc)]
    return " ".join(parts)


def d_pack(p):
    if p is None:
        return "N"
    return "P %d %d %s %s %s %d" % (p.packpos, p.numstreams, nats(p.packsizes), bits(p.digestdefined), nats(p.crcs),
                                   1 if p.enable_digests else 0)


def d_folders(u):
    if u is None:
        return "N"
    return " ".join(["U %d" % len(u.folders)] + [d_folder(f) for f in u.folders])


def d_sub(s):
    if s is None:
        return "N"
    return "B %s %s %s %s" % (nats(s.num_unpackstreams_folders), "N" if s.unpacksizes is None else nats(s.unpacksizes),
                              bits(s.digestsdefined), nats(s.digests))


def d_streams(s):
    if s is None:
        return "N"
    return "S %s %s %s" % (d_pack(s.packinfo), d_folders(s.unpackinfo), d_sub(s.substreamsinfo))


def d_slot(f, key):
    if key not in f:
        return "A"
    if f[key] is None:
        return "U"
    return str(int(f[key]))


def d_file(f):
    nm = f.get("filename")
    return "E %d %s %s %s %s %s" % (1 if f["emptystream"] else 0, "N" if nm is None else nats([ord(c) for c in nm]),
                                   d_slot(f, "creationtime"), d_slot(f, "lastaccesstime"), d_slot(f, "lastwritetime"),
                                   d_slot(f, "attributes"))


def d_filesinfo(fi):
    if fi is None:
        return "N"
    return " ".join(["I %d" % len(fi.files)] + [d_file(f) for f in fi.files] + [bits(fi.emptyfiles)])


def d_header(h):
    return "H %s %s" % (d_streams(h.main_streams), d_filesinfo(h.files_info))


# ------------------------------------------------------------------ implementation calls
def impl_write_raw(h, pos):
    buf = io.BytesIO()
    buf.write(b"\xee" * pos)
    try:
        h.write(buf, 0, encoded=False)
    except Exception:  # noqa
        return "err"
    return hexs(buf.getvalue()[pos:])


def impl_read(data):
    """Header._read up to the point where a codec is needed."""
    try:
        if not data:
            return "empty"
        if data[:1] == b"\x17":
            s = ai.HeaderStreamsInfo.retrieve(io.BytesIO(data[1:]))
            return "encoded " + d_streams(s)
        h = ai.Header.retrieve(io.BytesIO(b""), io.BytesIO(data), 0)
        return "ok " + d_header(h)
    except Bad7zFile:
        return "bad7z"
    except MemoryError:
        return "memory"
    except Exception:  # noqa
        return "malformed"


# ------------------------------------------------------------------ generators
METHODS = [b"\x21", b"\x03\x01\x01", b"\x00", b"\x04\x02\x02", b"\x04\x01\x08", b"\x03\x03\x01\x03", b"\x03",
           b"\x06\xf1\x07\x01", b"\x04\xf7\x11\x01", b"\x03\x04\x01"]


def rnd_size(rng):
    k = rng.random()
    if k < 0.5:
        return rng.randrange(0, 300)
    if k < 0.8:
        return rng.getrandbits(rng.choice([8, 14, 16, 21, 28, 32]))
    return rng.getrandbits(rng.choice([35, 42, 49, 56, 57, 63, 64]))


def gen_coder(rng):
    props = None
    if rng.random() < 0.6:
        props = rng.randbytes(rng.choice([0, 1, 1, 5, 5, 18, 130]))
    return {"method": rng.choice(METHODS), "numinstreams": 1, "numoutstreams": 1, "properties": props}


def gen_folder(rng, ncoders=None):
    f = ai.Folder()
    n = ncoders or rng.choice([1, 1, 1, 2, 2, 3, 4])
    f.coders = [gen_coder(rng) for _ in range(n)]
    f.bindpairs = [ai.Bond(incoder=i + 1, outcoder=i) for i in range(n - 1)]
    f.packed_indices = [0]
    f.unpacksizes = [rnd_size(rng) for _ in range(n)]
    f.digestdefined = False
    f.crc = None
    return f


def name_chars(rng):
    k = rng.random()
    if k < 0.5:
        return rng.randrange(0x21, 0x7F)
    if k < 0.6:
        return rng.randrange(1, 0x21)
    if k < 0.85:
        c = rng.randrange(0x80, 0x10000)
        while 0xD800 <= c < 0xE000:
            c = rng.randrange(0x80, 0x10000)
        return c
    return rng.randrange(0x10000, 0x110000)


def gen_name(rng):
    if rng.random() < 0.08:
        return "n" + chr(rng.choice([0x100, 0x400, 0x3000, 0x4E00, 0xFF00])) + "x" + chr(rng.choice([0x100, 0x200])) + ".t"
    comps = []
    for _ in range(rng.randrange(1, 4)):
        comps.append("".join(chr(name_chars(rng)) for _ in range(rng.randrange(1, 9))).replace("/", "_").replace("\\", "_"))
    return "/".join(comps)


def gen_ticks(rng):
    """FILETIME values over the whole unsigned 64-bit range, the ends included"""
    if rng.random() < 0.25:
        return rng.choice([0, 0, 1, 2 ** 63 - 1, 2 ** 63, 2 ** 64 - 1, 116444736000000000])
    return rng.getrandbits(rng.choice([20, 57, 63, 64]))


def gen_header(rng, *, writer_like=True, partial_vectors=False, nfiles=None, nfolders=None, allow_empty_folders=False):
    """A header as py7zr's own writer builds it (writer_like) or a more general one."""
    h = ai.Header()
    nfiles = rng.choice([0, 1, 2, 3, 5, 8, 9, 17]) if nfiles is None else nfiles
    files = []
    for _ in range(nfiles):
        f = {"emptystream": rng.random() < 0.3, "filename": gen_name(rng)}
        if partial_vectors and rng.random() < 0.4:
            if rng.random() < 0.5:
                f["lastwritetime"] = None
        else:
            f["lastwritetime"] = ai.ArchiveTimestamp(gen_ticks(rng))
        if partial_vectors and rng.random() < 0.4:
            if rng.random() < 0.5:
                f["attributes"] = None
        else:
            f["attributes"] = rng.choice([0, 0, 1, 0x20, 0xFFFFFFFF]) if rng.random() < 0.2 else rng.getrandbits(32)
        if rng.random() < 0.5:
            f["creationtime"] = ai.ArchiveTimestamp(gen_ticks(rng))
        files.append(f)
    fi = ai.FilesInfo()
    fi.files = files
    fi.emptyfiles = [f["emptystream"] for f in files] if writer_like else []
    h.files_info = fi
    ndata = sum(1 for f in files if not f["emptystream"])
    if ndata == 0 and (not allow_empty_folders or rng.random() < 0.7):
        h.main_streams = None
        return h
    nfolders = nfolders or (1 if writer_like and rng.random() < 0.6 else rng.randrange(1, 4))
    # split data files over folders (every folder gets >= 0 streams; writer never has 0 except fresh append)
    if not allow_empty_folders:
        nfolders = max(1, min(nfolders, ndata))
        cuts = sorted(rng.sample(range(1, ndata), nfolders - 1)) if nfolders > 1 else []
    else:
        cuts = sorted(rng.randrange(0, ndata + 1) for _ in range(nfolders - 1))
    counts = [b - a for a, b in zip([0] + cuts, cuts + [ndata])]
    s = ai.StreamsInfo()
    s.packinfo = ai.PackInfo()
    s.packinfo.packpos = 0 if writer_like else rng.choice([0, 0, 7, 300])
    s.packinfo.numstreams = nfolders
    s.packinfo.packsizes = [rnd_size(rng) for _ in range(nfolders)]
    with_crc = rng.random() < 0.4
    s.packinfo.enable_digests = with_crc
    if with_crc:
        s.packinfo.digestdefined = [True] * nfolders
        s.packinfo.crcs = [rng.getrandbits(32) for _ in range(nfolders)]
    else:
        s.packinfo.digestdefined = []
        s.packinfo.crcs = []
    s.unpackinfo = ai.UnpackInfo()
    s.unpackinfo.numfolders = nfolders
    s.unpackinfo.folders = [gen_folder(rng) for _ in range(nfolders)]
    ss = ai.SubstreamsInfo()
    ss.num_unpackstreams_folders = counts
    sizes = []
    for i, c in enumerate(counts):
        part = [rng.randrange(0, 5000) for _ in range(c)]
        sizes += part
        if c > 0:
            s.unpackinfo.folders[i].unpacksizes[-1] = sum(part)
    ss.unpacksizes = sizes
    ss.digestsdefined = [True] * ndata
    ss.digests = [rng.getrandbits(32) for _ in range(ndata)]
    s.substreamsinfo = ss
    h.main_streams = s
    return h
