"""C09 — selective extraction equals the restriction of full extraction."""
import io
import itertools
import os
import shutil
import tempfile
import zlib

import arclib
import refwriter
import sandbox
import checks.c06 as c06

ID = "C09"
RULE = ("archives: solid single folder, multi-folder (write+append), directories and empty files interleaved, py7zr-written "
        "and reference-written (empty files stored as empty-stream entries, several folders); T ranges over ALL subsets of "
        "the member names for archives of <=6 members (quick) / <=8 (thorough), plus absent names, as list or set, with and "
        "without trailing '/', recursive False/True, output to a directory or a WriterFactory; delivered members and their "
        "bytes are compared with extractall restricted to the selection computed by the Lean model (sel stream) and the "
        "slices predicted by the session model (rs stream); created paths must be exactly selected members + ancestors. "
        "Non-trivial = a selected member preceded by an unselected data member in the same folder; distinct by (archive, T, options).")
ASSUMPTIONS = ["member names are prefix-free except along '/' boundaries (the quantifier's hypothesis); absent names are not string prefixes of members"]


def enc(s):
    return ",".join(str(ord(c)) for c in s) or "-"


def build_archives(rng, tmp, thorough):
    """-> list of dict(label, data, files=[(name, kind, bytes)], folders=[[idx...]])"""
    out = []
    import py7zr
    src = os.path.join(tmp, "dsrc")
    os.makedirs(src, exist_ok=True)

    def session(buf, mode, items, filters):
        buf.seek(0)
        with py7zr.SevenZipFile(buf, mode, filters=filters) as z:
            for name, kind, data in items:
                if kind == "dir":
                    z.write(src, name)
                else:
                    z.writestr(data, name)

    def mk(label, sessions, filters=None):
        buf = io.BytesIO()
        files, folders = [], []
        for i, items in enumerate(sessions):
            session(buf, "w" if i == 0 else "a", items, filters or [{"id": arclib.FILTER_LZMA2, "preset": 1}])
            folders.append([len(files) + j for j, it in enumerate(items) if it[1] == "file"])
            files += items
        out.append({"label": label, "data": buf.getvalue(), "files": files, "folders": folders})

    def content(n):
        return arclib.gen_content(rng, n)
    mk("solid", [[("a.txt", "file", content(100)), ("d", "dir", None), ("d/b.bin", "file", content(333)), ("d/e.empty", "file", b""),
                  ("d/sub", "dir", None), ("d/sub/c.txt", "file", content(50)), ("z.txt", "file", content(7))]])
    mk("multi", [[("a.txt", "file", content(100)), ("d", "dir", None), ("d/b.bin", "file", content(200))],
                 [("d/c.txt", "file", content(30)), ("x", "dir", None), ("x/one", "file", content(64)), ("x/two", "file", content(65))],
                 [("late", "file", content(10))]], filters=[{"id": arclib.FILTER_COPY}])
    # a stored (Copy) solid folder whose members are larger than the decoder's 1 MiB read-ahead: what is skipped between
    # two selected members reaches beyond what has been read ahead
    mk("solid-stored-big", [[("s/a.bin", "file", content(1_300_000)), ("s/b.bin", "file", content(900_000)), ("s/c.bin", "file", content(1_700_000)),
                             ("s/d.bin", "file", content(300)), ("s/e.bin", "file", content(1_200_000))]], filters=[{"id": arclib.FILTER_COPY}])
    mk("solid-lzma2-big", [[("s/a.bin", "file", content(1_300_000)), ("s/b.bin", "file", content(900_000)), ("s/c.bin", "file", content(1_100_000))]],
       filters=[{"id": arclib.FILTER_LZMA2, "preset": 0}])
    mk("multi-bz2", [[("p/q/r.bin", "file", content(500)), ("p", "dir", None), ("p/q", "dir", None)], [("p/q/s.bin", "file", content(20)), ("t", "file", content(1))]],
       filters=[{"id": arclib.FILTER_BZIP2}])
    # reference-written: empty files as empty-stream entries between data members, two folders
    members = [{"name": "a.txt", "kind": "file", "data": content(40)}, {"name": "marker.empty", "kind": "emptyfile", "data": b""},
               {"name": "sub", "kind": "dir", "data": b""}, {"name": "sub/b.txt", "kind": "file", "data": content(60)},
               {"name": "sub/c.bin", "kind": "file", "data": content(70)}, {"name": "tail.empty", "kind": "emptyfile", "data": b""}]
    for m in members:
        m.update({"attr": c06.DIR_ATTR if m["kind"] == "dir" else c06.FILE_ATTR, "mtime": 130000000000000000, "ctime": None, "atime": None})
    for label, folders in (("ref-solid", [("lzma2", [0, 3, 4])]), ("ref-two-folders", [("copy", [0, 3]), ("lzma", [4])])):
        lay = {"folders": folders, "crc_place": "sub", "nums_omitted": True, "packcrc": False, "packpos": 0, "dummy": 0, "emptyfile_vector": True,
               "header": "raw", "password": None, "nonminimal": False}
        data = refwriter.build(members, lay, rng)
        out.append({"label": label, "data": data, "files": [(m["name"], "file" if m["kind"] in ("file", "emptyfile") else "dir", m["data"]) for m in members],
                    "folders": [idx for _, idx in folders]})
    return out


def _extract(job):
    data, targets, as_set, recursive, how, by, tmp = job
    import py7zr
    path = os.path.join(tmp, "s_%d.7z" % os.getpid())
    if by == "path":
        with open(path, "wb") as f:
            f.write(data)
        src = path
    else:
        src = io.BytesIO(data)
    t = set(targets) if as_set else list(targets)
    try:
        with py7zr.SevenZipFile(src, "r") as z:
            if how == "factory":
                fac = py7zr.io.BytesIOFactory(1 << 24)
                z.extract(targets=t, recursive=recursive, factory=fac)
                got = {}
                for n, p in fac.products.items():
                    p.seek(0)
                    got[n] = p.read()
                return got, None
            dest = os.path.join(tmp, "o_%d" % os.getpid())
            z.extract(path=dest, targets=t, recursive=recursive)
            got, created = {}, []
            for dp, dn, fn in os.walk(dest):
                for n in dn:
                    created.append(os.path.relpath(os.path.join(dp, n), dest) + "/")
                for n in fn:
                    rel = os.path.relpath(os.path.join(dp, n), dest)
                    created.append(rel)
                    got[rel] = open(os.path.join(dp, n), "rb").read()
            shutil.rmtree(dest, ignore_errors=True)
            return got, sorted(created)
    finally:
        if by == "path" and os.path.exists(path):
            os.unlink(path)


def ancestors(name):
    parts = name.split("/")
    return ["/".join(parts[:i]) + "/" for i in range(1, len(parts))]


def run(ctx):
    rng = ctx.rng
    ctx.lean_obligations("SevenZ.Props.C09")
    tmp = tempfile.mkdtemp(prefix="verif_c09_")
    try:
        arcs = build_archives(rng, tmp, ctx.thorough)
        jobs, meta = [], []
        for arc in arcs:
            names = [f[0] for f in arc["files"]]
            subsets = []
            for r in range(0, len(names) + 1):
                subsets += list(itertools.combinations(range(len(names)), r))
            if not ctx.thorough and len(subsets) > 70:
                subsets = [s for s in subsets if len(s) <= 1] + rng.sample([s for s in subsets if len(s) > 1], 60)
            for sub in subsets:
                tg = [names[i] for i in sub]
                if rng.random() < 0.5:
                    tg = [t + "/" if rng.random() < 0.5 else t for t in tg]
                if rng.random() < 0.4:
                    tg.insert(rng.randrange(len(tg) + 1), rng.choice(["zz_absent", "zz/absent/name", "zz_absent/"]))
                rng.shuffle(tg)
                recursive = rng.random() < 0.5
                how = rng.choice(["factory", "dir"])
                by = rng.choice(["path", "stream"])
                jobs.append((arc["data"], tg, rng.random() < 0.5, recursive, how, by, tmp))
                meta.append((arc, tg, recursive, how, by))
        res = sandbox.pmap(_extract, jobs, timeout=60)
        # selection according to the Lean model of _extract's filter
        sel_lines = []
        for (arc, tg, recursive, how, by) in meta:
            for f in arc["files"]:
                sel_lines.append("sel.run %d %s %s" % (1 if recursive else 0, ";".join(enc(t) for t in tg) or ".", enc(f[0])))
        sel_out = ctx.run_driver(sel_lines)
        k = 0
        rs_lines, rs_impl, rs_arcs = [], [], []
        for (arc, tg, recursive, how, by), job, (st, val) in zip(meta, jobs, res):
            files = arc["files"]
            selected = [sel_out[k + i] == "1" for i in range(len(files))]
            k += len(files)
            # independent definition of the selection (path-boundary semantics) — must agree under prefix-freedom
            norm = [t[:-1] if t.endswith("/") else t for t in tg]
            indep = [(n in norm) or (recursive and any(n.startswith(t + "/") for t in norm)) for n, _, _ in files]
            conf = {"archive": arc["label"], "targets": tg, "recursive": recursive, "output": how, "open": by, "as_set": job[2]}
            if indep != selected:
                ctx.fail("C09:selection", "the member filter selects %s, the path-boundary definition %s" % (selected, indep), conf)
            nontrivial = False
            for fol in arc["folders"]:
                seen_unsel = False
                for i in fol:
                    if selected[i] and seen_unsel:
                        nontrivial = True
                    if not selected[i] and len(files[i][2]) > 0:
                        seen_unsel = True
            ctx.case(key=(arc["label"], tuple(tg), recursive, how, by), nontrivial=nontrivial, sample=conf)
            if st != "ok":
                ctx.fail("C09:extract_" + st, "extract(T) failed: %s" % str(val)[:200], conf)
                continue
            got, created = val
            want = {n: d for (n, kind, d), s in zip(files, selected) if s and kind == "file"}
            if got != want:
                d = [n for n in set(got) | set(want) if got.get(n) != want.get(n)]
                ctx.fail("C09:restriction", "extract(T) delivers something else than extractall restricted to T: %s" % d[:4], dict(conf, got=sorted(got), want=sorted(want)))
            if created is not None:
                wantc = set()
                for (n, kind, d), s in zip(files, selected):
                    if s:
                        wantc.add(n + "/" if kind == "dir" else n)
                        wantc.update(ancestors(n))
                if set(created) != wantc:
                    ctx.fail("C09:created_paths", "created paths are not exactly the selected members and their ancestors", dict(conf, created=created, want=sorted(wantc)))
            # correspondence with the session model: slices for the selected data members
            ids = [i for i, s in enumerate(selected) if s and files[i][1] == "file" and any(i in f for f in arc["folders"])]
            ftok = "|".join(",".join("%d:%d" % (i, len(files[i][2])) for i in fol) for fol in arc["folders"]) or "-"
            rs_lines.append("rs.run 1 %s extract=%s" % (ftok, ",".join(map(str, ids)) or "-"))
            name_to_id = {n: i for i, (n, _, _) in enumerate(files)}
            rs_impl.append("d:" + ",".join("%d=%08x:%d" % (name_to_id[n], zlib.crc32(b), len(b)) for n, b in sorted(got.items(), key=lambda x: name_to_id.get(x[0], 0))
                                            if n in name_to_id and any(name_to_id[n] in f for f in arc["folders"])))
            rs_arcs.append(arc)

        def translate(i, m):
            arc = rs_arcs[i]
            fcontent = [b"".join(arc["files"][j][2] for j in fol) for fol in arc["folders"]]
            items = []
            if m[2:] != "-":
                for s in m[2:].split(","):
                    mid, restp = s.split("@")
                    fo, rest2 = restp.split("+")
                    off, size = rest2.split("/")
                    b = fcontent[int(fo)][int(off):int(off) + int(size)]
                    items.append("%d=%08x:%d" % (int(mid), zlib.crc32(b), len(b)))
            return "d:" + ",".join(items)

        ctx.correspond_model("rs.extract", rs_lines, rs_impl, translate)
    finally:
        shutil.rmtree(tmp, ignore_errors=True)


def replay(ctx, data):
    print(data.get("failure"))
    return 0
