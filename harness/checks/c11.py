"""C11 — encryption: nothing leaks, nothing is delivered without the right password."""
import io
import struct
import zlib

import arclib
import histories
import refreader
import sandbox
import streams_aes

ID = "C11"
RULE = ("aes stream (residue buffers vs the Lean model, recording cipher) + header-mode sequences vs the Lean mode machine + "
        "exploration: members with recognisable plaintext (>=24 bytes) and names (>=6 chars) x every supported chain ending "
        "in 7zAES (incl. AES alone and Copy+AES) x header encryption off/on (constructor flag and setters, any call order) "
        "x passwords incl. empty and non-BMP; the archive bytes are searched for 16-byte windows of the plaintext, of "
        "every un-encrypted compressed form of it, and (header encryption) of the names in UTF-16/UTF-8; two builds compared "
        "for IV/ciphertext reuse; absent / wrong (different, prefix, case-changed, extended) / right password outcomes. "
        "Non-trivial = archive with >=2 members; distinct by (chain, header mode, password, members).")
ASSUMPTIONS = ["secrecy of AES-CBC, the KDF and get_random_bytes are outside the model; IV freshness is observed on pairs of builds"]

PLAIN = [b"TOP-SECRET-PLAINTEXT-0123456789-ABCDEFGHIJKLMNOPQRSTUVWXYZ-the quick brown fox " * 3,
         b"another recognisable payload: lorem ipsum dolor sit amet consectetur " * 5,
         bytes(range(32, 127)) * 4]


def windows(b, n=16, step=7):
    return {b[i:i + n] for i in range(0, max(0, len(b) - n + 1), step)}


def _build(job):
    members, filters, password, mode_ops = job[:4]
    pre = job[4] if len(job) > 4 else None
    import py7zr
    buf = io.BytesIO()
    kw = {"filters": filters} if filters is not None else {}
    if password is not None:
        kw["password"] = password
    mode = "w"
    if pre is not None:
        # an earlier session of the same archive (same chain and password) with its own header-mode calls:
        # the session under test then APPENDS, and its header mode alone decides how the final header is stored
        pre_members, pre_ops = pre
        kw0 = dict(kw)
        if pre_ops and pre_ops[0] == "ctor":
            kw0["header_encryption"] = True
            pre_ops = pre_ops[1:]
        with py7zr.SevenZipFile(buf, "w", **kw0) as z:
            for op in pre_ops:
                if op == "enc+":
                    z.set_encrypted_header(True)
                elif op == "encoded-":
                    z.set_encoded_header_mode(False)
            for i, (n, d) in enumerate(pre_members):
                z.writestr(d, n)
        buf.seek(0)
        mode = "a"
    if mode_ops and mode_ops[0] == "ctor":
        kw["header_encryption"] = True
        mode_ops = mode_ops[1:]
    with py7zr.SevenZipFile(buf, mode, **kw) as z:
        for op in mode_ops:
            if op == "enc+":
                z.set_encrypted_header(True)
            elif op == "enc-":
                z.set_encrypted_header(False)
            elif op == "encoded+":
                z.set_encoded_header_mode(True)
            elif op == "encoded-":
                z.set_encoded_header_mode(False)
        for i, (n, d) in enumerate(members):
            z.writestr(d, n) if i % 2 == 0 else z.writef(io.BytesIO(d), n)
        final = (z.encoded_header_mode, z.header_encryption)
    return buf.getvalue(), final


def _try_read(job):
    data, password = job
    import py7zr
    fac = py7zr.io.BytesIOFactory(1 << 24)
    kw = {} if password is None else {"password": password}
    stage = "open"
    try:
        with py7zr.SevenZipFile(io.BytesIO(data), "r", **kw) as z:
            stage = "names"
            names = z.getnames()
            stage = "extract"
            z.extractall(factory=fac)
        got = {}
        for n, p in fac.products.items():
            p.seek(0)
            got[n] = p.read()
        return ("ok", names, got)
    except Exception as e:  # noqa
        got = {}
        for n, p in fac.products.items():
            p.seek(0)
            got[n] = p.read()
        return ("exc", stage, type(e).__name__, got)


def _try_append_wrong(job):
    """an append session opened with a wrong / absent password must not deliver or destroy anything"""
    data, password = job
    import py7zr
    buf = io.BytesIO(data)
    kw = {} if password is None else {"password": password}
    try:
        with py7zr.SevenZipFile(buf, "a", **kw) as z:
            z.writestr(b"appended with the wrong password", "intruder.txt")
        return ("ok", buf.getvalue())
    except Exception as e:  # noqa
        return ("exc", type(e).__name__, buf.getvalue())


def model_mode(ctor, ops):
    enc, encr = True, ctor
    for op in ops:
        if op == "enc+":
            enc, encr = True, True
        elif op == "enc-":
            encr = False
        elif op == "encoded+":
            enc = True
        elif op == "encoded-":
            enc, encr = False, False
    return enc, encr


def run(ctx):
    rng = ctx.rng
    ctx.lean_obligations("SevenZ.Props.C11")
    streams_aes.run(ctx)
    chains = [("AES", [])] + [(lab, f) for lab, f in arclib.chains() if histories.supported(arclib.with_aes(f), "x")]
    streams_aes.run_km(ctx)
    passwords = streams_aes.PASSWORDS
    n = len(chains) * (3 if ctx.thorough else 1)
    jobs, meta = [], []
    for i in range(n):
        lab, f = chains[i % len(chains)]
        filters = arclib.with_aes(f)
        pw = passwords[i % len(passwords)]
        k = rng.randrange(1, 4)
        names = ["confidential-%d/%s" % (j, "".join(chr(rng.randrange(0x61, 0x7B)) for _ in range(8))) + ".secret-name" for j in range(k)]
        members = [(nm, rng.choice(PLAIN) + (b"#%d" % j)) for j, nm in enumerate(names)]
        opseqs = [[], ["ctor"], ["enc+"], ["ctor", "enc-"], ["enc+", "encoded-"], ["encoded-", "enc+"], ["ctor", "encoded-", "encoded+"], ["enc+", "enc-", "enc+"],
                  ["ctor", "encoded+"], ["enc+", "encoded+"], ["enc+", "encoded+", "encoded+"], ["encoded+", "enc+", "encoded+"]]
        ops = opseqs[i] if i < len(opseqs) else rng.choice(opseqs + [[]])
        jobs.append((members, filters, pw, ops))
        jobs.append((members, filters, pw, ops))        # second build of the same input: IV / ciphertext must differ
        meta.append((lab + "+AES", pw, ops, members))
        if i % 2 == 0:
            # the same session as an APPEND to an earlier session whose header was plain, encoded or encrypted
            pre_names = ["confidential-pre/%s.secret-name" % "".join(chr(rng.randrange(0x61, 0x7B)) for _ in range(8))]
            pre_members = [(pre_names[0], rng.choice(PLAIN) + b"#pre")]
            pre_ops = rng.choice([[], [], ["ctor"], ["enc+"], ["encoded-"]])
            f2 = filters if i % 4 == 0 else None
            jobs.append((members, f2, pw, ops, (pre_members, pre_ops)))
            jobs.append((members, f2, pw, ops, (pre_members, pre_ops)))
            meta.append(((lab + "+AES" if f2 is not None else "default") + "/append-after-%s" % ("+".join(pre_ops) or "plain-header"), pw, ops, pre_members + members))
    # every way of asking for header encryption in an APPEND session x every kind of header the base had
    for gi, (pre_ops, ops) in enumerate([(a, b) for a in ([], ["ctor"], ["encoded-"]) for b in (["ctor"], ["enc+"], [], ["ctor", "enc-"])]):
        lab, f = chains[gi % len(chains)]
        filters = arclib.with_aes(f) if gi % 3 else None
        pw = passwords[gi % len(passwords)]
        pre_members = [("confidential-pre/%s.secret-name" % "".join(chr(rng.randrange(0x61, 0x7B)) for _ in range(8)), rng.choice(PLAIN) + b"#pre")]
        members = [("confidential-app/%s.secret-name" % "".join(chr(rng.randrange(0x61, 0x7B)) for _ in range(8)), rng.choice(PLAIN) + b"#app")]
        jobs.append((members, filters, pw, ops, (pre_members, pre_ops)))
        jobs.append((members, filters, pw, ops, (pre_members, pre_ops)))
        meta.append(((lab + "+AES" if filters is not None else "default") + "/append-after-%s" % ("+".join(pre_ops) or "plain-header"), pw, ops, pre_members + members))
    # default filters (filters=None): the library picks the encrypted default chain whenever a password is given
    for pw in ("", "x", "pässwörd"):
        names = ["confidential-d/%s.secret-name" % pw.encode().hex()]
        members = [(names[0], PLAIN[0])]
        for ops in ([], ["ctor"]):
            jobs.append((members, None, pw, ops))
            jobs.append((members, None, pw, ops))
            meta.append(("default", pw, ops, members))
    built = sandbox.pmap(_build, jobs, timeout=120)
    reads, rmeta = [], []
    mode_lines, mode_outs = [], []
    for i, (lab, pw, ops, members) in enumerate(meta):
        (s1, v1), (s2, v2) = built[2 * i], built[2 * i + 1]
        conf = {"chain": lab, "password": pw, "header_ops": ops, "members": [(n, len(d)) for n, d in members]}
        ctx.case(key=(lab, pw, tuple(ops), tuple(n for n, _ in members)), nontrivial=len(members) >= 2, sample=conf)
        if s1 != "ok" or s2 != "ok":
            ctx.fail("C11:build_failed", "writing an encrypted archive failed: %s" % str(v1 if s1 != "ok" else v2)[:200], conf)
            continue
        (a1, final), (a2, _) = v1, v2
        ctor = bool(ops) and ops[0] == "ctor"
        want_mode = model_mode(ctor, ops[1:] if ctor else ops)
        # the same session through the Lean mode machine (Impl.initMode / stepMode / headerForm)
        sops = ops[1:] if ctor else ops
        mode_lines.append("aes.mode %d %s" % (1 if ctor else 0, ",".join(sops) if sops else "-"))
        mode_outs.append("%d %d %s" % (1 if final[0] else 0, 1 if final[1] else 0,
                                        "encrypted" if final[1] else ("encoded" if final[0] else "raw")))
        if tuple(final) != want_mode:
            if want_mode[1] and not final[1]:
                # header encryption was asked for and is not in force: the names will be stored readable
                ctx.fail("C11:header_mode", "header mode after %s is %s, the mode machine says %s" % (ops, final, want_mode), conf)
            else:
                # the session's mode differs from the model without weakening what was asked for: a broken correspondence
                ctx.broken.append({"kind": "correspondence", "name": "header-mode-machine",
                                   "detail": {"ops": ops, "impl": list(final), "model": list(want_mode), "chain": lab}})
        encrypted_header = want_mode[1]
        ctx.count("header", "encrypted" if encrypted_header else ("encoded" if want_mode[0] else "raw"))
        # ---- leak search
        for nm, d in members:
            if windows(d) & _present(a1, windows(d)):
                ctx.fail("C11:plaintext_leak", "member content appears in the archive bytes", dict(conf, member=nm))
        base = [x for x in (jobs[2 * i][1] or [{"id": arclib.FILTER_LZMA2, "preset": 7}]) if x["id"] != arclib.FILTER_CRYPTO_AES256_SHA256]
        if base:
            try:
                plain_arc = arclib.write_archive(members, filters=base, header="raw")
                ofs, = struct.unpack("<Q", plain_arc[12:20])
                packed = plain_arc[32:32 + ofs]
                w = windows(packed, 16, 5)
                if len(packed) >= 32 and _present(a1, w):
                    ctx.fail("C11:compressed_leak", "an un-encrypted compressed form of the content appears in the archive", conf)
            except Exception:  # noqa
                pass
        if encrypted_header:
            for nm, _ in members:
                for form in (nm.encode("utf-16-le"), nm.encode("utf-8")):
                    if _present(a1, windows(form, 12, 2)):
                        ctx.fail("C11:name_leak", "a member name appears in an archive with header encryption", dict(conf, member=nm))
        # ---- IV / ciphertext reuse between two builds
        r1, r2 = refreader.read_many(ctx, [a1, a2], [pw, pw])
        if not (r1["ok"] and r2["ok"]):
            ctx.fail("C11:reference_reader", "the independent reader (own KDF) cannot decrypt: %s" % (r1.get("error") or r2.get("error")), conf)
        else:
            ivs1 = [c["props"] for f in r1["streams"]["folders"] for c in f["coders"] if c["method"] == "06f10701"]
            if not ivs1:
                ctx.fail("C11:not_encrypted", "a password was given but the archive has no 7zAES coder", conf)
            ivs2 = [c["props"] for f in r2["streams"]["folders"] for c in f["coders"] if c["method"] == "06f10701"]
            if set(ivs1) & set(ivs2):
                ctx.fail("C11:iv_reuse", "two archives of the same input and password share an AES IV", dict(conf, props=list(set(ivs1) & set(ivs2))))
            o1, = struct.unpack("<Q", a1[12:20])
            if a1[32:32 + min(o1, 64)] == a2[32:32 + min(o1, 64)] and o1 >= 16:
                ctx.fail("C11:ciphertext_reuse", "two archives of the same input and password share ciphertext", conf)
        # ---- password outcomes
        wrongs = streams_aes.equivalents(pw) + [None, pw + "x", pw[:-1] if pw else "nonempty", pw.swapcase() if pw.swapcase() != pw else pw + "́", "totally different"]
        reads.append((a1, pw))
        rmeta.append((conf, "right", members, encrypted_header))
        for w in wrongs:
            if w == pw:
                continue
            reads.append((a1, w))
            rmeta.append((conf, "absent" if w is None else "wrong", members, encrypted_header))
    ctx.correspond("aes.mode", mode_lines, mode_outs)
    # an APPEND session opened without / with a wrong password on an archive whose header is encrypted: it cannot
    # even list the archive, so it must raise and leave every byte as it was — never start a new archive in its place
    ajobs, ameta = [], []
    for (data, pw), (conf, kind, members, ench) in zip(reads, rmeta):
        if ench and kind in ("absent", "wrong") and len(ajobs) < (60 if ctx.thorough else 16):
            ajobs.append((data, pw))
            ameta.append((conf, kind, members, data))
    ares = sandbox.pmap(_try_append_wrong, ajobs, timeout=120)
    for (conf, kind, members, data), (st, val) in zip(ameta, ares):
        ctx.case(key=("append-wrong", zlib.crc32(data), kind), nontrivial=True)
        if st != "ok":
            ctx.fail("C11:append_" + st, "an append session with %s password did not complete" % kind, conf)
            continue
        ctx.count("append-with-%s-password" % kind, val[0] if val[0] == "ok" else val[1])
        after = val[1] if val[0] == "ok" else val[2]
        if after != data:
            ctx.fail("C11:append_wrong_password_destroys", "an append session opened with %s password changed the archive (%s): the earlier members are no longer there"
                     % (kind, "no error" if val[0] == "ok" else val[1]), dict(conf, size_before=len(data), size_after=len(after)))
        elif val[0] == "ok":
            ctx.fail("C11:append_wrong_password_succeeds", "an append session opened with %s password reported success" % kind, conf)
    res = sandbox.pmap(_try_read, reads, timeout=120)
    for (conf, kind, members, ench), (st, val) in zip(rmeta, res):
        want = {n: d for n, d in members}
        ctx.case()
        ctx.count("password-" + kind, (val[0] if val[0] == "ok" else "%s@%s" % (val[2], val[1])) if st == "ok" else st)
        if st != "ok":
            ctx.fail("C11:read_" + st, "reading with %s password did not complete: %s" % (kind, st), conf)
            continue
        delivered = val[2] if val[0] == "ok" else val[3]
        wrong_bytes = {n: len(b) for n, b in delivered.items() if n in want and b != want[n] and len(b) > 0}
        if kind == "right":
            if val[0] != "ok" or val[1] != [n for n, _ in members] or delivered != want:
                ctx.fail("C11:right_password", "the right password does not give back the members: %s" % str(val[:3])[:200], conf)
            continue
        if val[0] == "ok":
            if delivered != want or True:
                ctx.fail("C11:%s_password_succeeds" % kind, "reading with %s password reported success" % kind, dict(conf, delivered={n: len(b) for n, b in delivered.items()}))
            continue
        if kind == "absent" and val[2] != "PasswordRequired":
            ctx.fail("C11:absent_password_error", "without a password %s raised %s, not PasswordRequired" % (val[1], val[2]), conf)
        if wrong_bytes:
            # streaming extraction hands bytes to the writer before the CRC verdict; the call still fails, so nothing
            # is *delivered* in the property's sense (an error is reported) — recorded, not a violation
            ctx.count("garbage-written-before-error", kind)


def _present(hay, needles):
    out = set()
    for w in needles:
        if len(w) >= 12 and w in hay:
            out.add(w)
    return out


def replay(ctx, data):
    print(data.get("failure"))
    return 0
