"""C01 — content round trip: what is written is what is read, for every codec chain."""
import io
import os
import shutil
import tempfile
import zlib

import arclib
import histories
import sandbox
import streams_dec

ID = "C01"
RULE = ("dec stream (chunked decode with carry-over vs the Lean model) + aes stream (residue buffers of AESCompressor/"
        "AESDecompressor with a recording cipher vs the Lean model, all chunkings of short streams) + exploration: member "
        "lists (0..6 members, names per the quantifier, lengths around 0/1/16/32/block multiples, random/repetitive/x86 "
        "texture) x every supported documented chain (+/-7zAES) x header raw/encoded/encrypted x target path/BytesIO/"
        "buffered file/multi-volume (path targets created with mode 'w' and with exclusive mode 'x') x I/O block size {17,64,4096,default} x extraction chunk {1,7,4096,default}; each case "
        "written and read back in a child process; names and bytes compared. Non-trivial = >=2 members or a member longer "
        "than one block; distinct by the full configuration.")
ASSUMPTIONS = ["codec libraries satisfy decode(encode x) = x under any chunking (parameter of the model)", "multivolumefile and buffered file objects are runtime"]


def _case(job):
    members, filters, password, header, target, blocksize, chunk, tmp = job
    import py7zr
    import py7zr.compressor
    import py7zr.py7zr as core
    if blocksize:
        py7zr.compressor.get_default_blocksize = lambda: blocksize
        core.get_default_blocksize = lambda: blocksize
    if chunk:
        core.get_memory_limit = lambda: chunk
    kw = {}
    if filters is not None:
        kw["filters"] = filters
    if password is not None:
        kw["password"] = password
    if header == "encrypted":
        kw["header_encryption"] = True
    path = os.path.join(tmp, "rt_%d.7z" % os.getpid())
    mv = None
    if target == "path":
        tgt = path
    elif target == "bytesio":
        tgt = io.BytesIO()
    elif target == "buffered":
        tgt = open(path, "w+b")
    else:
        import multivolumefile
        mv = multivolumefile.open(path, mode="wb", volume=target_volume(target))
        tgt = mv
    # exclusive creation ("x") is a write mode of the API like "w": used for path targets of every second case
    wmode = "x" if (target == "path" and len(members) % 2 == 1) else "w"
    try:
        with py7zr.SevenZipFile(tgt, wmode, **kw) as z:
            if header == "raw":
                z.set_encoded_header_mode(False)
            for i, (name, data) in enumerate(members):
                if i % 2 == 0:
                    z.writestr(data, name)
                else:
                    z.writef(io.BytesIO(data), name)
    finally:
        if mv is not None:
            mv.close()
        if target == "buffered":
            tgt.close()
    # read back
    rk = {"password": password} if password is not None else {}
    if target == "bytesio":
        src = io.BytesIO(tgt.getvalue())
    elif target in ("path", "buffered"):
        src = path if target == "path" else open(path, "rb")
    else:
        import multivolumefile
        mv = multivolumefile.open(path, mode="rb")
        src = mv
    try:
        fac = py7zr.io.BytesIOFactory(1 << 28)
        with py7zr.SevenZipFile(src, "r", **rk) as z:
            names = z.getnames()
            z.extractall(factory=fac)
        got = {}
        for n, p in fac.products.items():
            p.seek(0)
            got[n] = p.read()
    finally:
        if mv is not None:
            mv.close()
        if target == "buffered":
            src.close()
        for f in os.listdir(tmp):
            if f.startswith("rt_%d.7z" % os.getpid()):
                os.unlink(os.path.join(tmp, f))
    diffs = []
    if names != [n for n, _ in members]:
        diffs.append("names %r != %r" % (names[:4], [n for n, _ in members][:4]))
    for n, d in members:
        if got.get(n) != d:
            g = got.get(n)
            diffs.append("bytes of %r differ (%s vs %d written)" % (n, "missing" if g is None else len(g), len(d)))
    return diffs


def target_volume(t):
    return int(t.split(":")[1])


def gen_cases(ctx, rng, tmp):
    chains = [(lab, f) for lab, f in arclib.chains() if histories.supported(f)]
    n = 1500 if ctx.thorough else 260
    cases = []
    for i in range(n):
        lab, f = chains[i % len(chains)] if i < 2 * len(chains) else rng.choice(chains)
        blocksize = rng.choice([None, None, 17, 64, 4096])
        chunk = rng.choice([None, None, 1, 7, 4096]) if blocksize is None or blocksize >= 64 else rng.choice([None, 7, 4096])
        b = blocksize or 4096
        lens = [0, 1, 15, 16, 17, 31, 32, 33, b - 1, b, b + 1, 2 * b, 2 * b + 1]
        nm = rng.choice([0, 1, 2, 3, 3, 4, 6])
        names = arclib.gen_names(rng, nm)
        tex = "code" if lab.split("+")[0] in ("X86", "ARM", "ARMT", "PPC", "SPARC", "IA64") and rng.random() < 0.7 else None
        members = [(x, arclib.gen_content(rng, rng.choice(lens), tex)) for x in names]
        if chunk == 1:
            members = [(x, d[:300]) for x, d in members]
        password = rng.choice([None, None, "sécret", ""]) if i % 3 else None
        filters = f
        label = lab
        if password is not None:
            if not histories.supported(arclib.with_aes(f), "x"):
                password = None
            else:
                filters = arclib.with_aes(f)
                label = lab + "+AES"
        header = rng.choice(["raw", "encoded", "encoded"]) if password is None else rng.choice(["raw", "encoded", "encrypted"])
        target = rng.choice(["path", "bytesio", "bytesio", "buffered", "mv:64", "mv:1000", "mv:100000"])
        cases.append((label, (members, filters, password, header, target, blocksize, chunk, tmp)))
    # the documented default chain and the default encrypted chain at default sizes with a member over one block
    big = [("big.bin", arclib.gen_content(rng, (1 << 20) + 17, "repetitive")), ("small", b"xyz")]
    cases.append(("default", (big, None, None, "encoded", "path", None, None, tmp)))
    cases.append(("default+AES", (big, None, "pw", "encrypted", "bytesio", None, None, tmp)))
    for lab in ("Copy", "ZStandard", "Deflate"):
        f = dict(arclib.chains())[lab]
        three = [("m0", arclib.gen_content(rng, 3 * (1 << 19), "random")), ("m1", arclib.gen_content(rng, 3 * (1 << 18), "repetitive")), ("m2", arclib.gen_content(rng, 1 << 19, "random"))]
        cases.append((lab + ":multi-block", (three, f, None, "encoded", "bytesio", None, None, tmp)))
    # sizes that sit on the class boundaries of the header's variable-length NUMBER (2^7, 2^14, 2^21): every
    # size, count and offset of the header goes through that encoding, so a member (or a Copy-coded folder)
    # of exactly such a length exercises the first value of each encoding length
    edges = [127, 128, 129, 16383, 16384, 16385]
    big_edges = [(1 << 21) - 1, 1 << 21, (1 << 21) + 1]
    for j, (lab, f) in enumerate([c for c in chains if c[0] in ("Copy", "LZMA2", "Deflate", "BZip2", "ZStandard")]):
        for k, n in enumerate(edges):
            ms = [("edge%d.bin" % n, arclib.gen_content(rng, n, "random"))]
            if (j + k) % 2:
                ms = [("pre", b"p" * rng.choice([0, 1, 5]))] + ms + [("post", b"q")]
            cases.append((lab + ":number-edge", (ms, f, None, rng.choice(["raw", "encoded"]), rng.choice(["path", "bytesio"]), None, None, tmp)))
    for k, n in enumerate(big_edges):
        lab, f = [c for c in chains if c[0] in ("Copy", "LZMA2", "Deflate")][k % 3]
        cases.append((lab + ":number-edge", ([("edge%d.bin" % n, arclib.gen_content(rng, n, "repetitive")), ("post", b"q")], f, None, "raw" if k % 2 else "encoded", "bytesio", None, None, tmp)))
    return cases


def run(ctx):
    rng = ctx.rng
    ctx.lean_obligations("SevenZ.Props.C01")
    streams_dec.run(ctx, n_calls=(3000 if ctx.thorough else 600), n_loop=(300 if ctx.thorough else 60))
    try:
        import streams_aes
        streams_aes.run(ctx)
    except ImportError:
        pass
    import streams_ws
    streams_ws.run_cmp(ctx)
    tmp = tempfile.mkdtemp(prefix="verif_c01_")
    try:
        cases = gen_cases(ctx, rng, tmp)
        res = sandbox.pmap(_case, [c[1] for c in cases], timeout=180, mem=4 << 30)
        for (label, job), (st, val) in zip(cases, res):
            members, filters, password, header, target, blocksize, chunk, _ = job
            conf = {"chain": label, "password": password, "header": header, "target": target, "blocksize": blocksize, "chunk": chunk,
                    "members": [(n, len(d), "%08x" % zlib.crc32(d)) for n, d in members]}
            key = (label, password, header, target, blocksize, chunk, tuple((n, len(d)) for n, d in members))
            ctx.case(key=key, nontrivial=len(members) >= 2 or any(len(d) > (blocksize or 1 << 20) for _, d in members), sample=conf)
            ctx.count("chain", label)
            ctx.count("target", target)
            ctx.count("blocksize", blocksize)
            ctx.count("chunk", chunk)
            if st == "ok" and not val:
                continue
            what = ("%s %s" % (st, str(val)[:200])) if st != "ok" else val[0]
            ctx.fail(_sig(label, what), "round trip fails: " + what, conf)
    finally:
        shutil.rmtree(tmp, ignore_errors=True)


def _sig(label, what):
    parts = label.split("+")
    if len(parts) >= 2 and parts[0] in ("X86", "ARM", "ARMT", "PPC", "SPARC") and parts[1] in ("BZip2", "PPMd", "LZMA"):
        return "C01:bcj_before_maxlength_decoder"
    return "C01:roundtrip"


def replay(ctx, data):
    print(data.get("failure"))
    return 0
