"""C03 — extraction never writes outside the destination directory."""
import io
import itertools
import os
import shutil
import stat
import sys
import tempfile

import refwriter
import sandbox
import checks.c06 as c06

ID = "C03"
RULE = ("path stream (canonical_path / get_sanitized_output_path / is_relative_to vs the Lean path model, exhaustive over the "
        "component alphabet) + exploration: hostile archives built by the independent writer — 1..3 entries (quick; 1..4 "
        "thorough, plus random longer ones) whose names come from {a, b, a/b, .., ../x, ./a, '', /abs, <dest name>, ...} and "
        "whose kinds are file / directory / symlink with targets from {., .., ../.., a, a/.., absolute inside and outside "
        "the jail, names of earlier entries}, all orders, destination given absolute / relative / None, destination empty or "
        "pre-populated (no links), opened by path and from a stream — extracted in a child process under an audit hook "
        "(open-for-write, mkdir, symlink, chmod, utime, remove, rename, truncate, link) whose paths are resolved against the "
        "jail; plus a before/after snapshot of everything around the destination. Non-trivial = archive with a symlink "
        "entry or a '..'/absolute component; distinct by (entries, destination spelling, open mode).")
ASSUMPTIONS = ["the audit hook sees every file-system mutation CPython performs; os.path.realpath of the parent decides the physical location",
               "POSIX only"]

NAMES = ["a", "b", "a/b", "b/evil", "a/b/c", "..", "../x", "../../x", "a/../x", "a/../../x", "./a", "a/./b", "/abs_evil", "//abs2", "dest", "../dest/x", "a/", "x", "f",
         "a/../b", "a/../a", "./b", "b/../a", "a/../c", "c",
         # the relative-path marker and redundant separators in front of a path that is absolute on its own: what is
         # validated (joined to the destination, separators collapsed) must be what is created
         ".", "./", "a/..", "../dest", "./a/..",
         ".//JAIL_OUT/nd", "./JAIL_OUT/nd", ".///JAIL_OUT/nd", "././/JAIL_OUT/nd", "a/..//JAIL_OUT/nd", ".//JAIL_OUT", ".//", "./.", "./..", ".//../x"]
TARGETS = [".", "..", "../..", "a", "a/..", "a/../..", "b", "x", "/etc", "JAIL_OUT", "JAIL_DEST", "../outside_file", "../outside_dir", "f", "a/../x", "b/a", "a/../.."]


EXPLICIT = []


def entry_space(rng, thorough):
    ents = []
    for n in NAMES:
        ents.append((n, "file", b"payload-" + n.encode()))
        ents.append((n, "emptyfile", None))          # a file member without a stream (7-Zip's zero-length file): created with touch()
        ents.append((n, "dir", None))
        ents.append((n, "emptylink", None))          # an entry with the symbolic-link attribute but no stream
        for t in TARGETS:
            ents.append((n, "symlink", t))
    return ents


def gen_archives(rng, thorough):
    ents = entry_space(rng, thorough)
    out = []
    for e in ents:
        out.append([e])
    # the known shapes: chains of individually harmless links, final-component links, duplicates replacing a dir by a link
    chains = [
        [("a", "symlink", "."), ("a/b", "symlink", ".."), ("b/evil", "file", b"evil")],
        [("a", "symlink", "."), ("f", "symlink", "a/../x"), ("./f", "file", b"truncate")],
        [("a", "symlink", ".."), ("a/evil", "file", b"evil")],
        [("a", "dir", None), ("a", "symlink", ".."), ("a/evil", "file", b"evil")],
        [("a", "symlink", "."), ("a/../x", "file", b"evil")],
        [("a", "symlink", "."), ("a/b", "symlink", ".."), ("b", "dir", None), ("b/d", "dir", None)],
        [("a", "symlink", "JAIL_OUT"), ("a/evil", "file", b"evil")],
        [("l", "symlink", "../outside_file"), ("l", "file", b"overwrite")],
        [("l", "symlink", "a"), ("a", "symlink", "../outside_dir"), ("l/evil", "file", b"evil")],
        [("d", "dir", None), ("d/l", "symlink", "../.."), ("d/l/evil", "file", b"evil")],
        [("a", "symlink", "."), ("a/b", "symlink", ".."), ("b/outside_file", "file", b"clobber")],
        [("x", "file", b"1"), ("x", "symlink", "../outside_file"), ("x", "file", b"2")],
        # the same member under another spelling, as a stream-less file: touch() follows a link standing there
        [("a", "symlink", "."), ("b", "symlink", "a/.."), ("a/../b", "emptyfile", None)],
        [("a", "symlink", "."), ("b", "symlink", "a/.."), ("c", "symlink", "b/a"), ("a/../c", "emptyfile", None)],
        [("l", "symlink", "../outside_file"), ("./l", "emptyfile", None)],
        [("a", "symlink", "."), ("l", "symlink", "a/../../outside_file"), ("a/../l", "emptyfile", None)],
        [("a", "symlink", "."), ("b", "symlink", "a/.."), ("a/../b", "dir", None)],
        [("a", "symlink", "."), ("b", "symlink", "a/.."), ("a/../b", "file", b"through")],
        # a directory validated once, then re-pointed through another spelling of its name
        [("a", "symlink", "."), ("a/b", "symlink", ".."), ("b/../a", "symlink", "b"), ("a/a", "file", b"cached")],
        [("a", "symlink", "."), ("a/b", "symlink", ".."), ("./a", "symlink", "b"), ("a/x", "emptyfile", None)],
        [("a", "dir", None), ("a/x", "file", b"1"), ("b", "symlink", ".."), ("b/../a", "symlink", "b"), ("a/y", "file", b"2")],
        # a stream-less entry flagged as a link, standing on a link extracted earlier
        [("a", "symlink", "."), ("l", "symlink", "a/../victim"), ("./l", "emptylink", None)],
        [("l", "symlink", "../outside_file"), ("./l", "emptylink", None)],
        [("a", "symlink", "."), ("a/b", "symlink", ".."), ("b/evil", "emptylink", None)],
        # marker / separator prefixes
        [(".//JAIL_OUT/nd", "dir", None)],
        [(".//JAIL_OUT/nd", "file", b"x")],
        [(".//JAIL_OUT/nd", "emptyfile", None)],
        [(".//JAIL_OUT/nd", "symlink", ".")],
        [(".//JAIL_OUT/nd/deeper/still", "dir", None)],
    ]
    out += chains
    EXPLICIT[:] = chains      # these also run under every destination spelling and open mode (see run)
    out += skeleton_archives(rng, 1500 if thorough else 350)
    out += duplicate_archives(rng, 600 if thorough else 120)
    n2 = 3000 if thorough else 700
    for _ in range(n2):
        k = rng.choice([2, 2, 3, 3, 4] if thorough else [2, 2, 3])
        out.append([rng.choice(ents) for _ in range(k)])
    for _ in range(200 if thorough else 40):
        out.append([rng.choice(ents) for _ in range(rng.randrange(5, 9))])
    return out


def alias(rng, path):
    """another spelling of the same lexical path (what get_sanitized_output_path maps to the same output)"""
    parts = path.split("/")
    k = rng.randrange(5)
    if k == 0:
        return "./" + path
    if k == 1:
        return rng.choice(["b", "x", "a"]) + "/../" + path
    if k == 2 and len(parts) >= 1:
        return "/".join(parts[:-1] + [parts[-1], "..", parts[-1]])
    if k == 3:
        return path.replace("/", "/./", 1) if "/" in path else path + "/."
    return path


def duplicate_archives(rng, n):
    """2..4 entries whose names are spellings of ONE output location (the destination root itself, `a`, or `a/b`), of
    any kinds: duplicates are renamed (`_0`, `_1`, ...) on extraction, and the renamed path is a new path that must
    itself stay inside the destination — also when the location is the root, whose sibling lies outside."""
    groups = [[".", "./", "a/..", "../dest", "./a/..", "b/..", "./."],
              ["a", "./a", "a/", "b/../a", "a/.", "x/../a"],
              ["a/b", "./a/b", "a/./b", "a/c/../b", "a/b/"]]
    out = []
    # systematic: every pair of spellings of the root, both orders, as directories (the kind that is created before
    # any guarded write) and as files
    for x in groups[0]:
        for y in groups[0]:
            out.append([(x, "dir", None), (y, "dir", None)])
    for x in groups[0][:4]:
        for kind in ("file", "emptyfile", "emptylink"):
            out.append([(x, "dir", None), (x, kind, b"dup" if kind == "file" else None), (x, "dir", None)])
    for _ in range(n):
        g = rng.choice(groups)
        k = rng.choice([2, 2, 3, 4])
        ents = []
        for _ in range(k):
            nm = rng.choice(g) if rng.random() < 0.8 else g[0]
            kind = rng.choice(["dir", "dir", "file", "emptyfile", "symlink", "emptylink"])
            payload = b"dup" if kind == "file" else (rng.choice(TARGETS) if kind == "symlink" else None)
            ents.append((nm, kind, payload))
        if rng.random() < 0.4:
            ents.append((rng.choice(g) + rng.choice(["/evil", "_0/evil", "_0"]), rng.choice(["file", "dir"]), b"evil"))
        out.append(ents)
    return out


def skeleton_archives(rng, n):
    """Grammar over the shapes that have defeated path guards so far: (1) links that make an upward path out of
    individually harmless targets, (2) optionally a link re-pointed or duplicated under another spelling of an
    existing name, after its directory has been used, (3) a payload (file, stream-less file, directory, link) whose
    name passes through them — every name optionally re-spelled."""
    out = []
    # systematic core: every combination of the options that matter, one spelling each
    for l2 in ("a/b", "b"):
        for t2 in ("..", "a/.."):
            thirds = [None] + [(al, "b") for al in ("b/../a", "./a", "a/../a", "x/../a")] + [("c", "b/a")]
            for third in thirds:
                for pname in ("a/a", "b/evil", "a/b/evil", "a/x", "c", "c/evil", "a/../b", "a/../c"):
                    for kind in ("file", "emptyfile", "emptylink", "dir"):
                        ents = [("a", "symlink", "."), (l2, "symlink", t2)]
                        if third:
                            ents.append((third[0], "symlink", third[1]))
                        ents.append((pname, kind, b"evil" if kind == "file" else None))
                        out.append(ents)
    for _ in range(n):
        l1 = rng.choice(["a", "d", "a"])
        ents = [(l1, "symlink", rng.choice([".", ".", l1 + "/..", "./."]))]
        l2 = rng.choice([l1 + "/b", "b", l1 + "/" + l1])
        ents.append((l2, "symlink", rng.choice(["..", "..", l1 + "/..", "../..", l1 + "/../.."])))
        base2 = l2.split("/")[-1]
        if rng.random() < 0.6:
            # re-point an existing link through an alias, or add a third link that composes the first two
            if rng.random() < 0.5:
                ents.append((alias(rng, l1), "symlink", rng.choice([base2, l2, "..", l1 + "/" + base2])))
            else:
                ents.append((rng.choice(["c", l1 + "/c"]), "symlink", rng.choice([base2 + "/" + l1, l2 + "/" + l1, base2, l2])))
        if rng.random() < 0.3:
            ents.insert(rng.randrange(len(ents) + 1), (rng.choice([l1, "b", base2]), rng.choice(["dir", "file", "emptyfile"]), b"early"))
        pname = rng.choice([l1 + "/" + l1, base2 + "/evil", l2 + "/evil", l1 + "/" + base2 + "/evil", "c/evil", "c", base2, l1 + "/" + l1 + "/evil",
                            base2 + "/outside_file", "c/outside_file"])
        if rng.random() < 0.5:
            pname = alias(rng, pname)
        kind = rng.choice(["file", "file", "emptyfile", "emptylink", "dir", "symlink"])
        payload = b"evil" if kind == "file" else (rng.choice(["..", "../outside_dir", "JAIL_OUT"]) if kind == "symlink" else None)
        ents.append((pname, kind, payload))
        if rng.random() < 0.3:
            ents.append((rng.choice([pname + "/deeper", l1 + "/x", "x"]), rng.choice(["file", "emptyfile"]), b"more"))
        out.append(ents)
    return out


def build(entries, jail, rng, nonsolid=False):
    members = []
    for name, kind, payload in entries:
        name = name.replace("JAIL_OUT", os.path.join(jail, "outside_dir").lstrip("/"))
        if kind == "emptylink":
            members.append({"name": name, "kind": "emptyfile", "data": b"", "attr": c06.LINK_ATTR, "mtime": 125000000000000000, "ctime": None, "atime": None})
        elif kind == "symlink":
            t = payload.replace("JAIL_OUT", os.path.join(jail, "outside_dir")).replace("JAIL_DEST", os.path.join(jail, "dest"))
            members.append({"name": name, "kind": "symlink", "data": t.encode(), "attr": c06.LINK_ATTR, "mtime": 130000000000000000, "ctime": None, "atime": None})
        elif kind == "emptyfile":
            members.append({"name": name, "kind": "emptyfile", "data": b"", "attr": c06.FILE_ATTR, "mtime": 125000000000000000, "ctime": None, "atime": None})
        elif kind == "dir":
            members.append({"name": name, "kind": "dir", "data": b"", "attr": c06.DIR_ATTR, "mtime": 130000000000000000, "ctime": None, "atime": None})
        else:
            members.append({"name": name, "kind": "file", "data": payload, "attr": c06.FILE_ATTR, "mtime": 120000000000000000, "ctime": None, "atime": None})
    streams = [i for i, m in enumerate(members) if m["kind"] in ("file", "symlink")]
    lay = {"folders": ([("copy", [i]) for i in streams] if nonsolid else [("copy", streams)]) if streams else [], "crc_place": "sub", "nums_omitted": True, "packcrc": False, "packpos": 0, "dummy": 0,
           "emptyfile_vector": True, "header": "raw", "password": None, "nonminimal": False}
    return refwriter.build(members, lay, rng)


def _snapshot(root, skip):
    out = {}
    for dp, dn, fn in os.walk(root, followlinks=False):
        if os.path.abspath(dp) == skip or os.path.abspath(dp).startswith(skip + os.sep):
            dn[:] = []
            continue
        dn[:] = [d for d in dn if os.path.abspath(os.path.join(dp, d)) != skip]
        for n in dn + fn:
            p = os.path.join(dp, n)
            st = os.lstat(p)
            content = None
            if stat.S_ISREG(st.st_mode):
                with open(p, "rb") as f:
                    content = f.read()
            elif stat.S_ISLNK(st.st_mode):
                content = os.readlink(p)
            out[os.path.relpath(p, root)] = (stat.S_IFMT(st.st_mode), stat.S_IMODE(st.st_mode), st.st_mtime_ns, content)
    return out


def _extract(job):
    data, jail, spelling, by, populate = job[:5]
    race = job[5] if len(job) > 5 else False
    import py7zr
    if race:
        # Enforced worst-case interleaving of the per-folder workers (archive opened by path, one folder per member):
        # the worker of the LAST folder runs its output-location check, then waits until every other worker has
        # finished (so every link of the archive is on disk), then goes on to create its member.
        import threading
        import py7zr.py7zr as core
        state = {"victim": None, "others_done": threading.Event(), "n": 0, "lock": threading.Lock(), "total": None}
        orig_single = core.Worker.extract_single
        orig_check = core.Worker._check_output_location

        def single(self, fp, files, path, src_start, src_end, q, exc_q=None, skip_notarget=True):
            me = threading.current_thread()
            is_victim = False
            with state["lock"]:
                if state["total"] is None:
                    state["total"] = self.header.main_streams.unpackinfo.numfolders if self.header.main_streams else 0
                if files is not None and any(getattr(f, "folder", None) is self.header.main_streams.unpackinfo.folders[-1] for f in files):
                    state["victim"] = me
                    is_victim = True
            try:
                return orig_single(self, fp, files, path, src_start, src_end, q, exc_q, skip_notarget)
            finally:
                if not is_victim:
                    with state["lock"]:
                        state["n"] += 1
                        if state["n"] >= (state["total"] or 1) - 1:
                            state["others_done"].set()

        def check(fileish, path):
            orig_check(fileish, path)
            if threading.current_thread() is state["victim"] and threading.current_thread() is not threading.main_thread():
                state["others_done"].wait(3.0)

        core.Worker.extract_single = single
        core.Worker._check_output_location = staticmethod(check)
    dest = os.path.join(jail, "dest")
    os.makedirs(dest)
    os.makedirs(os.path.join(jail, "outside_dir"))
    with open(os.path.join(jail, "outside_file"), "wb") as f:
        f.write(b"precious")
    os.utime(os.path.join(jail, "outside_file"), (1000000000, 1000000000))
    os.chmod(os.path.join(jail, "outside_file"), 0o600)
    if populate:
        os.makedirs(os.path.join(dest, "a"))
        with open(os.path.join(dest, "x"), "wb") as f:
            f.write(b"old")
    arc = os.path.join(jail, "hostile.7z")
    with open(arc, "wb") as f:
        f.write(data)
    real_dest = os.path.realpath(dest)
    before = _snapshot(jail, real_dest)
    events = []
    armed = [False]

    def hook(ev, args):
        if not armed[0]:
            return
        try:
            p = None
            if ev == "open":
                path, mode, flags = args
                if isinstance(path, (str, bytes, os.PathLike)) and (flags & (os.O_WRONLY | os.O_RDWR | os.O_CREAT | os.O_TRUNC | os.O_APPEND)):
                    p = os.fspath(path)
            elif ev in ("os.mkdir", "os.chmod", "os.utime", "os.remove", "os.rmdir", "os.truncate"):
                p = os.fspath(args[0])
            elif ev in ("os.symlink", "os.link", "os.rename"):
                p = os.fspath(args[1])
            if p is not None:
                if isinstance(p, bytes):
                    p = p.decode()
                ap = os.path.abspath(p)
                follow = ev in ("open", "os.chmod", "os.utime", "os.truncate")
                phys = os.path.realpath(ap) if follow else os.path.join(os.path.realpath(os.path.dirname(ap)), os.path.basename(ap))
                events.append((ev, p, phys))
        except Exception as e:  # noqa
            events.append(("hook-error", repr(e), ""))

    sys.addaudithook(hook)
    old = os.getcwd()
    outcome = "ok"
    try:
        if spelling == "absolute":
            path = dest
        elif spelling == "relative":
            os.chdir(jail)
            path = "dest"
        else:
            os.chdir(dest)
            path = None
        src = arc if by == "path" else open(arc, "rb")
        armed[0] = True
        try:
            with py7zr.SevenZipFile(src, "r") as z:
                z.extractall(path) if path is not None else z.extractall()
        except Exception as e:  # noqa
            outcome = "exc:" + type(e).__name__
        finally:
            armed[0] = False
            if by != "path":
                src.close()
    finally:
        os.chdir(old)
    after = _snapshot(jail, real_dest)
    escapes = [(ev, p, phys) for ev, p, phys in events
               if ev != "hook-error" and not (phys == real_dest or phys.startswith(real_dest + os.sep))
               and not phys.startswith(os.path.join(jail, "hostile.7z"))]
    changed = sorted(k for k in set(before) | set(after) if before.get(k) != after.get(k) and k != "hostile.7z")
    return outcome, escapes[:6], changed[:6], len(events)


def run(ctx):
    rng = ctx.rng
    ctx.lean_obligations("SevenZ.Props.C03")
    import checks.c16 as c16
    # path stream (shared with C16): canonical_path / get_sanitized_output_path on the hostile name space
    from py7zr import helpers
    import pathlib
    import py7zr
    names = set(NAMES)
    for n in range(1, 5):
        for comps in itertools.product(["a", "..", ".", "", "dest"], repeat=n):
            names.add("/".join(comps))
            names.add("/" + "/".join(comps))
    lines, outs = [], []
    for n in sorted(names):
        for base in ("/jail/dest", "/jail/dest/", "/"):
            try:
                o = "ok " + c16.enc(str(helpers.get_sanitized_output_path(n, pathlib.Path(base))))
            except py7zr.exceptions.Bad7zFile:
                o = "bad"
            lines.append("path.out %s %s" % (c16.enc(n), c16.enc(base)))
            outs.append(o)
    ctx.correspond("path.out", lines, outs)
    # the working-directory branch (extractall() without a path): evaluated with the process really standing in the directory
    for pre in ("./", ".//", ".///", "././/", "//", "/./"):
        for n in ("a", "etc/x", "dest/x", "..", "../x", "a/../../x", ""):
            names.add(pre + n)
    wd = tempfile.mkdtemp(prefix="verif_c03_cwd_")
    lines, outs = [], []
    old = os.getcwd()
    try:
        os.makedirs(os.path.join(wd, "dest", "a"))
        for cwd in (os.path.join(wd, "dest"), os.path.join(wd, "dest", "a"), "/"):
            os.chdir(cwd)
            for n in sorted(names):
                try:
                    o = "ok " + c16.enc(str(helpers.get_sanitized_output_path(n, None)))
                except py7zr.exceptions.Bad7zFile:
                    o = "bad"
                lines.append("path.outcwd %s %s" % (c16.enc(n), c16.enc(os.path.realpath(cwd))))
                outs.append(o)
    finally:
        os.chdir(old)
        shutil.rmtree(wd, ignore_errors=True)
    ctx.correspond("path.outcwd", lines, outs)

    tmp = tempfile.mkdtemp(prefix="verif_c03_")
    try:
        archives = gen_archives(rng, ctx.thorough)
        jobs, meta = [], []
        for i, entries in enumerate(archives):
            jail = os.path.join(tmp, "j%d" % i)
            os.makedirs(jail)
            try:
                data = build(entries, jail, rng)
            except Exception as e:  # noqa
                ctx.broken.append({"kind": "correspondence", "name": "refwriter", "detail": repr(e)})
                continue
            spelling = ["absolute", "relative", "none"][i % 3]
            by = ["path", "stream"][(i // 3) % 2]
            populate = (i % 5 == 0)
            jobs.append((data, jail, spelling, by, populate))
            meta.append((entries, spelling, by, populate))
        k = len(archives)
        for entries in EXPLICIT:
            for spelling in ("absolute", "relative", "none"):
                for by in ("path", "stream"):
                    jail = os.path.join(tmp, "j%d" % k)
                    k += 1
                    os.makedirs(jail)
                    data = build(entries, jail, rng)
                    jobs.append((data, jail, spelling, by, False))
                    meta.append((entries, spelling, by, False))
        # the same explicit shapes and the skeleton core with one folder per member, opened by path (per-folder worker
        # threads), under the enforced interleaving described in _extract
        race_sets = list(EXPLICIT) + skeleton_archives(rng, 0)[:: (1 if ctx.thorough else 6)]
        for entries in race_sets:
            if sum(1 for e in entries if e[1] in ("file", "symlink")) < 2:
                continue
            for spelling in (("absolute", "relative", "none") if ctx.thorough else ("absolute",)):
                jail = os.path.join(tmp, "j%d" % k)
                k += 1
                os.makedirs(jail)
                try:
                    data = build(entries, jail, rng, nonsolid=True)
                except Exception as e:  # noqa
                    continue
                jobs.append((data, jail, spelling, "path", False, True))
                meta.append((entries, spelling, "path/one-folder-per-member/last-worker-delayed-after-its-check", False))
        res = sandbox.pmap(_extract, jobs, timeout=60)
        for (entries, spelling, by, populate), (st, val) in zip(meta, res):
            desc = [(n, k, (p if k == "symlink" else None)) for n, k, p in entries]
            conf = {"entries": desc, "destination": spelling, "open": by, "populated": populate}
            nontrivial = any(k == "symlink" or ".." in n or n.startswith("/") for n, k, _ in entries)
            ctx.case(key=(str(desc), spelling, by, populate), nontrivial=nontrivial, sample=conf)
            if st != "ok":
                ctx.fail("C03:extract_" + st, "hostile extraction did not complete: %s" % str(val)[:200], conf)
                continue
            outcome, escapes, changed, nev = val
            ctx.count("outcome", outcome)
            ctx.count("audit-events", "some" if nev else "none")
            if escapes or changed:
                ctx.fail(_sig(entries), "extraction touched a location outside the destination: %s %s" % (escapes[:2], changed[:3]),
                         dict(conf, escapes=escapes, changed_outside=changed, outcome=outcome))
    finally:
        shutil.rmtree(tmp, ignore_errors=True)


def _sig(entries):
    links = [e for e in entries if e[1] == "symlink"]
    if links:
        return "C03:escape_through_extracted_symlink"
    return "C03:escape"


def replay(ctx, data):
    print(str(data.get("failure"))[:1500])
    return 0
