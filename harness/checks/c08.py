"""C08 — append preserves history."""
import os
import shutil
import tempfile

import histcheck
import refreader
import refwriter
import streams_hdr
import streams_ws
import checks.c06 as c06

ID = "C08"
RULE = ("ws.app stream: real append sessions (SevenZipFile(BytesIO, 'a') with scripted codec stages, raw header) on bases "
        "written by real create sessions and by earlier appends — data / directories only / empty members only / one member "
        "/ nothing in the base, any documented chain per session +/-password — the Lean append-session model (reader model on "
        "the base, Header.initialize()'s append branch, re-serialisation, file assembly) must predict the resulting file BYTE "
        "FOR BYTE; hdr.r-session: Header._read vs the reader model on every such header. Exploration: histories w(M0,F0) a(M1,F1)...a(Mk,Fk), k<=3 (quick) / 4 (thorough), Mi possibly empty / only directories / only empty "
        "files, any supported chain per session, password constant, header raw/encoded/encrypted; the first session is "
        "alternatively a third-party fixture or an archive from the independent reference writer in a non-py7zr layout; "
        "after every session the member map is read by py7zr and by the reference reader and compared with the members "
        "of all sessions in order; hdr stream with non-writer-like headers (what append re-serialises). Non-trivial = "
        ">=2 sessions; distinct by (history, chains, base).")
ASSUMPTIONS = ["as C07"]


def fixture_bases():
    out = []
    for fn in ("test_1.7z", "test_6.7z", "test_folder.7z", "hidden_linux_file.7z", "copy.7z", "solid.7z", "umlaut-non_solid.7z", "symlink.7z", "zerosize.7z", "lzma2bcj.7z", "bzip2_2.7z"):
        p = os.path.join("/repo/tests/data", fn)
        if os.path.exists(p):
            out.append((fn, open(p, "rb").read(), None))
    return out


def run(ctx):
    rng = ctx.rng
    ctx.lean_obligations("SevenZ.Props.C08")
    streams_hdr.run(ctx, n_write=(400 if ctx.thorough else 100), n_mut=1, writer_like=False, partial=True, empty_folders=True, fail_prefix="C08")
    streams_ws.run_arch(ctx, n=(60 if ctx.thorough else 20), n_app=(400 if ctx.thorough else 90))
    tmp = tempfile.mkdtemp(prefix="verif_c08_")
    try:
        # bases: fixtures and reference-writer layouts, with their member list taken from the reference reader
        cands = fixture_bases()
        for feat in ("multi-folder", "nonsolid", "folder-crc", "no-crc", "partial-crc", "packpos", "dummy", "nums-explicit", "no-substreams", "partial-mtime", "header-lzma", "packcrc"):
            members = c06.tweak_members(rng, c06.gen_logical(rng), feat)
            if not any(m["kind"] == "file" and m["data"] for m in members):
                members.append({"name": "payload-%s.bin" % feat, "kind": "file", "data": rng.randbytes(300), "attr": c06.FILE_ATTR, "mtime": 130000000000000000,
                                "ctime": None, "atime": None})      # a layout feature of the data area needs data
            lay = c06.gen_layout(rng, members, feat)
            cands.append(("ref:" + feat, refwriter.build(members, lay, rng), None))
        refs = refreader.read_many(ctx, [c[1] for c in cands], [c[2] for c in cands])
        bases = []
        for (nm, data, pw), r in zip(cands, refs):
            if r["ok"]:
                ms = [(m["name"].replace("\\", "/") if m["name"] is not None else None, {"file": "file", "symlink": "symlink", "dir": "dir", "emptyfile": "file"}[m["kind"]], m["data"] or b"")
                      for m in r["members"]]
                if all(m[0] is not None for m in ms):
                    bases.append((nm, data, ms, pw))
        ctx.count("bases", "usable", len(bases))
        histcheck.run(ctx, "C08", 500 if ctx.thorough else 90, tmp, max_sessions=(4 if ctx.thorough else 3), bases=bases, check_py7zr=True)
    finally:
        shutil.rmtree(tmp, ignore_errors=True)


def replay(ctx, data):
    print(data.get("failure"))
    return 0
