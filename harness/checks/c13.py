"""C13 — extraction results do not depend on scheduling; worker errors reach the caller."""
import io
import itertools
import json
import os
import zlib
import shutil
import tempfile
import threading
import time

import arclib
import sandbox
import schedlib

ID = "C13"
RULE = ("conc stream: real multi-folder extractions whose output writes are ordered by a harness scheduler (blocking "
        "WriterFactory products; a step ends only when a worker that finished its folder has terminated), compared with "
        "the Lean scheduler model run on the recorded trace + exploration: archives of 2..4 folders x 1..3 members (Copy/"
        "LZMA2/BZip2 folders, optional empty file) x ALL interleavings at output-write granularity when there are <=30 "
        "(quick) / <=400 (thorough), a random sample beyond x {intact, one folder damaged at each folder position (CRC "
        "flip in each member position, unwritable output, decoder failure), two folders damaged} in thread mode; every "
        "start/finish order of the workers (k! staggered starts) for directory output in thread and process mode (mp=True), "
        "process mode also with a writer factory; sequential path (archive given as a stream) as the reference; 2..3 "
        "independent SevenZipFile objects extracting the same file at once under sampled joint interleavings. "
        "Non-trivial = schedule in which workers alternate, or a failing worker that is not the first to finish; distinct by "
        "(shape, codecs, damage, mode, schedule).")
ASSUMPTIONS = ["granularity: one output write per member (members fit one decode step; counted in the evidence); the order of "
               "reads inside codecs and of Python byte-code between writes is the OS scheduler's, not enforced",
               "process mode is scheduled through staggered worker starts only (no shared-memory scheduler across processes)",
               "fork start method (Linux)"]

COPY = [{"id": arclib.FILTER_COPY}]
LZMA2 = [{"id": arclib.FILTER_LZMA2, "preset": 1}]
BZ2 = [{"id": arclib.FILTER_BZIP2}]
CODECSETS = {"copy": [COPY], "mixed": [COPY, LZMA2, BZ2], "lzma2": [LZMA2]}


def member_table(folders):
    """global member ids in folder order"""
    ids, k = {}, 0
    for fi, mem in enumerate(folders):
        for name, _ in mem:
            ids[name] = (k, fi)
            k += 1
    return ids


def _attribute(exc, folders, fail_on):
    """which folder does the raised exception belong to (1-based), or '?'"""
    import py7zr
    names = {n: fi for fi, mem in enumerate(folders) for n, _ in mem}
    if isinstance(exc, py7zr.exceptions.CrcError) and len(exc.args) >= 3 and exc.args[2] in names:
        return str(names[exc.args[2]] + 1)
    if isinstance(exc, OSError) and fail_on is not None and fail_on in str(exc):
        return str(names[fail_on] + 1)
    return "?" + type(exc).__name__


def _render(folders, products, raised, damaged=()):
    """damaged: names of members whose stored bytes were altered — they are written (before the CRC verdict) with
    whatever the archive holds; only the fact that they were written is compared"""
    ids = member_table(folders)
    toks = []
    for fi, mem in enumerate(folders):
        for name, data in mem:
            k = ids[name][0]
            got = products.get(name)
            if not got:
                toks.append("%d=" % k)
            elif got == data or name in damaged:
                toks.append("%d=%d" % (k, k))
            else:
                toks.append("%d=BAD" % k)
    return " ".join(toks) + " raise=" + (raised or "-") + " done=1"


def _sched_threads(job):
    """thread mode, factory output, enforced schedule"""
    path, folders, order, last_names, fail_on, settle = job["path"], job["folders"], job["order"], job["last"], job.get("fail_on"), job.get("settle", 0.0)
    import py7zr
    os.chdir(job["cwd"])
    sched = schedlib.Sched(order, last_of_folder=last_names, serial_exit=True, settle=settle) if order is not None else None
    fac = schedlib.SchedFactory(sched, fail_on=fail_on, fail_exc=OSError("device full while writing " + str(fail_on)))
    raised = None
    try:
        with py7zr.SevenZipFile(path, "r") as z:
            z.extractall(factory=fac)
    except Exception as e:  # noqa
        raised = _attribute(e, folders, fail_on)
    alive = [t.name for t in threading.enumerate() if t is not threading.main_thread() and t.is_alive()]
    prods = fac.result()
    return {"line": _render(folders, prods, raised, job.get("damaged", ())), "trace": list(sched.trace) if sched else [], "enforced": sched.enforced if sched else True,
            "threads": len(sched.threads) if sched else 0, "writes": {n: p.writes for n, p in fac.products.items()},
            "extra": {n: prods.get(n) for n, _ in job.get("extra", [])}, "alive": alive}


def _sequential(job):
    import py7zr
    os.chdir(job["cwd"])
    fac = schedlib.SchedFactory(None, fail_on=job.get("fail_on"), fail_exc=OSError("device full while writing " + str(job.get("fail_on"))))
    raised = None
    try:
        with open(job["path"], "rb") as f:
            with py7zr.SevenZipFile(f, "r") as z:
                z.extractall(factory=fac)
    except Exception as e:  # noqa
        raised = _attribute(e, job["folders"], job.get("fail_on"))
    return {"line": _render(job["folders"], fac.result(), raised, job.get("damaged", ()))}


def _staggered(job):
    """directory (or factory) output, thread or process workers started in a dictated order"""
    import py7zr
    import py7zr.py7zr as impl
    os.chdir(job["cwd"])
    ranks = job["ranks"]            # folder index -> start rank
    with py7zr.SevenZipFile(job["path"], "r") as z0:
        pos = z0.header.main_streams.packinfo.packpositions
        start0 = z0.worker.src_start
    by_start = {start0 + pos[i]: i for i in range(len(job["folders"]))}
    orig = impl.Worker.extract_single

    def wrapped(self, fp, files, path, src_start, src_end, q, exc_q=None, skip_notarget=True):
        if exc_q is not None and src_start in by_start:
            time.sleep(0.12 * ranks[by_start[src_start]])
        return orig(self, fp, files, path, src_start, src_end, q, exc_q, skip_notarget)

    impl.Worker.extract_single = wrapped
    result = None
    try:
        # a lost error can depend on a race below the granularity the harness controls (e.g. a queue's feeder
        # thread): damaged runs are repeated and the first run that loses the error is the one reported
        for _ in range(job.get("reps", 1)):
            result = _staggered_once(job)
            if job.get("damaged_any") and " raise=-" in result["line"]:
                break
    finally:
        impl.Worker.extract_single = orig
    return result


def _staggered_once(job):
    import py7zr
    raised = None
    dest = tempfile.mkdtemp(dir=job["cwd"])
    fac = py7zr.io.BytesIOFactory(1 << 24) if job["output"] == "factory" else None
    try:
        with py7zr.SevenZipFile(job["path"], "r", mp=job["mp"]) as z:
            if fac is not None:
                z.extractall(factory=fac)
            else:
                z.extractall(dest)
    except Exception as e:  # noqa
        raised = _attribute(e, job["folders"], None)
    prods = {}
    if fac is not None:
        for n, p in fac.products.items():
            p.seek(0)
            prods[schedlib.SchedFactory.strip(n)] = p.read()
    else:
        for dp, _, fn in os.walk(dest):
            for n in fn:
                full = os.path.join(dp, n)
                prods[os.path.relpath(full, dest)] = open(full, "rb").read()
    shutil.rmtree(dest, ignore_errors=True)
    return {"line": _render(job["folders"], prods, raised, job.get("damaged", ())), "extra": {n: prods.get(n) for n, _ in job.get("extra", [])}}


def _decoder_failure(job):
    """a folder whose packed stream is damaged so that the decoder itself fails: every mode must raise"""
    path, mode = job
    import py7zr
    raised = None
    dest = tempfile.mkdtemp(prefix="verif_c13d_")
    try:
        if mode == "sequential":
            with open(path, "rb") as f:
                with py7zr.SevenZipFile(f, "r") as z:
                    z.extractall(dest)
        else:
            with py7zr.SevenZipFile(path, "r", mp=(mode == "processes")) as z:
                z.extractall(dest)
    except Exception as e:  # noqa
        raised = type(e).__name__
    shutil.rmtree(dest, ignore_errors=True)
    return raised


def _worker_death(job):
    """process mode: the worker of one folder dies without reporting (as a crashing codec library would make it)"""
    path, victim = job
    import multiprocessing
    import signal
    import py7zr
    import py7zr.py7zr as core
    orig = core.Worker._extract_single

    def patched(self, fp, files, path_, src_end, q, skip_notarget=True):
        if multiprocessing.current_process().name != "MainProcess" and files and any(f.filename.startswith("fol%d/" % victim) for f in files):
            # the worker gets through all members but the last, starts the last one, and dies in the middle of it
            fl = list(files)
            orig(self, fp, fl[:-1], path_, src_end, q, skip_notarget)
            out = self.target_filepath.get(fl[-1].id)
            if out is not None:
                out.parent.mkdir(parents=True, exist_ok=True)
                with open(out, "wb") as f:
                    f.write(b"partial")
            os.kill(os.getpid(), signal.SIGKILL)
        return orig(self, fp, files, path_, src_end, q, skip_notarget)
    core.Worker._extract_single = patched
    dest = tempfile.mkdtemp(prefix="verif_c13k_")
    raised = None
    try:
        with py7zr.SevenZipFile(path, "r", mp=True) as z:
            z.extractall(dest)
    except Exception as e:  # noqa
        raised = type(e).__name__
    got = sorted(os.path.relpath(os.path.join(dp, n), dest) for dp, _, fn in os.walk(dest) for n in fn)
    shutil.rmtree(dest, ignore_errors=True)
    return raised, got


def _moved_cwd(job):
    """the archive is opened by a RELATIVE name and the process changes its working directory before extracting"""
    path, mp = job
    import py7zr
    d = os.path.dirname(path)
    os.chdir(d)
    other = tempfile.mkdtemp(prefix="verif_c13j_")
    dest = os.path.join(other, "out")
    raised = None
    try:
        z = py7zr.SevenZipFile(os.path.basename(path), "r", mp=mp)
        os.chdir(other)
        try:
            z.extractall(dest)
        finally:
            z.close()
    except Exception as e:  # noqa
        raised = type(e).__name__
    got = {}
    for dp, _, fn in os.walk(dest):
        for n in fn:
            got[os.path.relpath(os.path.join(dp, n), dest)] = open(os.path.join(dp, n), "rb").read()
    os.chdir("/")
    shutil.rmtree(other, ignore_errors=True)
    return raised, got


def _dup_names(job):
    """members with equal names (one folder each) plus a member literally named like the alias of a duplicate"""
    path, mode, big = job
    import py7zr
    dest = tempfile.mkdtemp(prefix="verif_c13u_")
    raised = None
    try:
        if mode == "sequential":
            with open(path, "rb") as f, py7zr.SevenZipFile(f, "r") as z:
                z.extractall(dest)
        else:
            with py7zr.SevenZipFile(path, "r", mp=(mode == "processes")) as z:
                z.extractall(dest)
    except Exception as e:  # noqa
        raised = type(e).__name__
    got = {}
    for dp, _, fn in os.walk(dest):
        for n in fn:
            b = open(os.path.join(dp, n), "rb").read()
            got[os.path.relpath(os.path.join(dp, n), dest)] = (len(b), zlib.crc32(b))
    shutil.rmtree(dest, ignore_errors=True)
    return raised, got


def _big_error(job):
    """processes: a worker's error message is larger than a pipe buffer (a 60000-character member name in a CrcError)"""
    path, mp = job
    import py7zr
    with py7zr.SevenZipFile(path, "r", mp=mp) as z:
        r = z.testzip()
    return None if r is None else len(r)


def _two_damaged(job):
    """testzip() on an archive with TWO damaged folders, the workers started so that the later folder fails first"""
    path, mode, late_first = job
    import py7zr
    import py7zr.py7zr as impl
    if mode == "sequential":
        with open(path, "rb") as f, py7zr.SevenZipFile(f, "r") as z:
            return z.testzip()
    with py7zr.SevenZipFile(path, "r") as z0:
        pos = z0.header.main_streams.packinfo.packpositions
        start0 = z0.worker.src_start
    order = {start0 + p: i for i, p in enumerate(pos[:-1])}
    n = len(order)
    orig = impl.Worker.extract_single

    def wrapped(self, fp, files, path_, src_start, src_end, q, exc_q=None, skip_notarget=True):
        if exc_q is not None and src_start in order:
            i = order[src_start]
            time.sleep(0.15 * ((n - i) if late_first else i))
        return orig(self, fp, files, path_, src_start, src_end, q, exc_q, skip_notarget)

    impl.Worker.extract_single = wrapped
    try:
        with py7zr.SevenZipFile(path, "r", mp=(mode == "processes")) as z:
            return z.testzip()
    finally:
        impl.Worker.extract_single = orig


def _shared_dir(job):
    """members of different folders share a directory that does not exist yet and has no entry of its own: all
    workers are made to arrive at os.mkdir() for it together (a barrier in the harness, stdlib call wrapped)"""
    import multiprocessing
    import py7zr
    os.chdir(job["cwd"])
    k = len(job["folders"])
    bar = multiprocessing.Barrier(k)
    real = os.mkdir
    waited = threading.local()

    def patched(path, mode=0o777, *a, **kw):
        if os.path.basename(os.fspath(path)) == job["shared"] and not getattr(waited, "done", False):
            waited.done = True
            try:
                bar.wait(timeout=1.5)
            except Exception:  # noqa  (broken barrier: somebody did not need the mkdir)
                pass
        return real(path, mode, *a, **kw)

    os.mkdir = patched
    raised = None
    dest = tempfile.mkdtemp(dir=job["cwd"])
    out = os.path.join(dest, "o")
    try:
        with py7zr.SevenZipFile(job["path"], "r", mp=job["mp"]) as z:
            z.extractall(out)
    except Exception as e:  # noqa
        raised = "?" + type(e).__name__
    finally:
        os.mkdir = real
    prods = {}
    for dp, _, fn in os.walk(out):
        for n in fn:
            full = os.path.join(dp, n)
            prods[os.path.relpath(full, out)] = open(full, "rb").read()
    shutil.rmtree(dest, ignore_errors=True)
    return {"line": _render(job["folders"], prods, raised)}


def _concurrent_objects(job):
    """several independent SevenZipFile objects on the same file, extracting at once"""
    import py7zr
    os.chdir(job["cwd"])
    sched = schedlib.Sched(job["order"], last_of_folder=(), serial_exit=False)
    fail = job.get("fail") or {}
    facs = [schedlib.SchedFactory(sched, prefix="%d:" % i, fail_on=fail.get(i), fail_exc=(OSError(28, "injected: no space") if i in fail else None))
            for i in range(job["n"])]
    errs = [None] * job["n"]

    def one(i):
        try:
            if job["kinds"][i] == "stream":
                with open(job["path"], "rb") as f, py7zr.SevenZipFile(f, "r") as z:
                    z.extractall(factory=facs[i])
            else:
                with py7zr.SevenZipFile(job["path"], "r") as z:
                    z.extractall(factory=facs[i])
        except Exception as e:  # noqa
            errs[i] = type(e).__name__ + ": " + str(e)[:100]

    ts = [threading.Thread(target=one, args=(i,)) for i in range(job["n"])]
    for t in ts:
        t.start()
    for t in ts:
        t.join(60)
    return {"lines": [_render(job["folders"], facs[i].result(), errs[i]) for i in range(job["n"])], "enforced": sched.enforced}


def model_line(folders, damage, sched_idx, mode="t"):
    """damage: {folder: ("crc", pos) | ("nowrite", pos) | ("decoder", None)}"""
    ids = member_table(folders)
    ws = []
    for fi, mem in enumerate(folders):
        steps = []
        d = damage.get(fi)
        for j, (name, _) in enumerate(mem):
            k = ids[name][0]
            if d and d[0] == "nowrite" and d[1] == j:
                steps.append("r%d" % (fi + 1))
                break
            if d and d[0] == "decoder":
                steps.append("r%d" % (fi + 1))
                break
            steps.append("w%d.%d" % (k, k))
            if d and d[0] == "crc" and d[1] == j:
                steps.append("r%d" % (fi + 1))
                break
        # outputs that are never written still exist as ids
        for name, _ in mem[len([s for s in steps if s.startswith("w")]):]:
            pass
        ws.append(",".join(steps) or "-")
    flush = list(range(len(folders)))
    sched = list(sched_idx) + flush + flush
    return "conc.run %s %s %s" % (mode, ";".join(ws), ",".join(map(str, sched)) or "-")


def fill_missing(folders, line):
    """the model prints only outputs that some step writes; add 'k=' for the others, in id order"""
    body, tail = line.split(" raise=")
    have = dict(t.split("=") for t in body.split()) if body else {}
    ids = member_table(folders)
    toks = []
    for fi, mem in enumerate(folders):
        for name, _ in mem:
            k = str(ids[name][0])
            toks.append("%s=%s" % (k, have.get(k, "")))
    return " ".join(toks) + " raise=" + tail


def run(ctx):
    rng = ctx.rng
    ctx.lean_obligations("SevenZ.Props.C13")
    tmp = tempfile.mkdtemp(prefix="verif_c13_")
    try:
        shapes = [[1, 1], [2, 1], [2, 2], [1, 1, 1], [3, 2], [2, 2, 2], [3, 2, 1], [1, 1, 1, 1], [2, 1, 2, 1]]
        if ctx.thorough:
            shapes += [[3, 3], [3, 3, 3], [2, 2, 2, 2], [3, 1, 3, 1], [1, 3, 2]]
        cap = 400 if ctx.thorough else 30
        jobs, meta = [], []       # scheduled thread runs
        sjobs, smeta = [], []     # sequential references
        gjobs, gmeta = [], []     # staggered starts
        cjobs, cmeta = [], []     # concurrent objects
        for si, shape in enumerate(shapes):
            cs = ["copy", "mixed", "copy"][si % 3]
            path = os.path.join(tmp, "arc%d.7z" % si)
            folders, extra = schedlib.build_multifolder(path, rng, shape, CODECSETS[cs], extras=(si % 2 == 0))
            raw = open(path, "rb").read()
            ids = member_table(folders)
            k = len(folders)
            n_int = schedlib.count_interleavings(shape)
            if n_int <= cap:
                scheds = list(schedlib.interleavings(shape))
                exhaustive = True
            else:
                scheds = list({schedlib.sample_interleaving(rng, shape) for _ in range(cap)})
                exhaustive = False
            ctx.count("interleavings", "%s:%s" % (shape, "all %d" % n_int if exhaustive else "%d of %d" % (len(scheds), n_int)))
            # damage variants
            variants = [("intact", {}, path, None)]
            for fi in range(k):
                copy_coded = CODECSETS[cs][fi % len(CODECSETS[cs])] is COPY
                for j in range(shape[fi]):
                    if copy_coded:
                        dp = os.path.join(tmp, "arc%d_d%d_%d.7z" % (si, fi, j))
                        open(dp, "wb").write(schedlib.damage_member(raw, folders[fi][j][1]))
                        variants.append(("crc@%d.%d" % (fi, j), {fi: ("crc", j)}, dp, None))
                    if not copy_coded and (j == shape[fi] - 1 or rng.random() < 0.4):
                        # a folder behind a native decoder: the member decodes to its right bytes and fails its own check
                        try:
                            dd = schedlib.damage_digest(raw, folders[fi][j][1])
                            dp = os.path.join(tmp, "arc%d_g%d_%d.7z" % (si, fi, j))
                            open(dp, "wb").write(dd)
                            variants.append(("digest@%d.%d" % (fi, j), {fi: ("crc", j)}, dp, None))
                        except AssertionError:
                            pass
                    if j == shape[fi] - 1 or rng.random() < 0.5:
                        variants.append(("nowrite@%d.%d" % (fi, j), {fi: ("nowrite", j)}, path, folders[fi][j][0]))
            if k >= 3 and cs == "copy":
                a, b = rng.sample(range(k), 2)
                d2 = schedlib.damage_member(schedlib.damage_member(raw, folders[a][0][1]), folders[b][0][1])
                dp = os.path.join(tmp, "arc%d_dd.7z" % si)
                open(dp, "wb").write(d2)
                variants.append(("crc2@%d,%d" % (a, b), {a: ("crc", 0), b: ("crc", 0)}, dp, None))
            for vlabel, damage, vpath, fail_on in variants:
                dnames = [folders[fi][d[1]][0] for fi, d in damage.items() if d[0] == "crc"]
                # members that will actually be written under this damage, per folder
                writes = []
                for fi in range(k):
                    d = damage.get(fi)
                    n = shape[fi]
                    if d and d[0] == "crc":
                        n = d[1] + 1
                    elif d and d[0] == "nowrite":
                        n = d[1] + 1     # the failing write is still a gated step
                    writes.append(n)
                use = scheds if vlabel == "intact" else (scheds if len(scheds) <= 12 else rng.sample(scheds, min(len(scheds), 12 if not ctx.thorough else 40)))
                seen = set()
                for s in use:
                    # restrict the interleaving to the steps that exist under this damage
                    left = list(writes)
                    idx = []
                    for fi in s:
                        if left[fi]:
                            left[fi] -= 1
                            idx.append(fi)
                    if vlabel != "intact" and damage:
                        # make the failing worker's last step come last in half of the schedules (it finishes after the others were joined)
                        fl = sorted(damage)[-1]
                        if rng.random() < 0.5:
                            last = len(idx) - 1 - idx[::-1].index(fl)
                            idx.append(idx.pop(last))
                    if tuple(idx) in seen:
                        continue
                    seen.add(tuple(idx))
                    cnt = [0] * k
                    order = []
                    for fi in idx:
                        order.append(folders[fi][cnt[fi]][0])
                        cnt[fi] += 1
                    last_names = [folders[fi][writes[fi] - 1][0] for fi in range(k) if writes[fi]]
                    jobs.append({"path": vpath, "folders": folders, "order": order, "last": last_names, "fail_on": fail_on, "cwd": tmp, "extra": extra,
                                 "settle": 0.05 if damage else 0.0, "damaged": dnames})
                    meta.append((shape, cs, vlabel, damage, idx, extra))
                sjobs.append({"path": vpath, "folders": folders, "fail_on": fail_on, "cwd": tmp, "damaged": dnames})
                smeta.append((shape, cs, vlabel, damage))
                # staggered starts: every permutation (k<=3) or a sample, thread/process, dir/factory
                if fail_on is None:
                    perms = list(itertools.permutations(range(k)))
                    if len(perms) > 6 and not ctx.thorough:
                        perms = rng.sample(perms, 6)
                    if vlabel != "intact" and not ctx.thorough:
                        # failing worker starts (hence finishes) last, first, and one random
                        fl = sorted(damage)[-1]
                        lastp = tuple([x for x in range(k) if x != fl] + [fl])
                        firstp = tuple([fl] + [x for x in range(k) if x != fl])
                        perms = [lastp, firstp]
                    for perm in perms:
                        ranks = {fi: r for r, fi in enumerate(perm)}
                        for mp, output in ((False, "dir"), (True, "dir"), (True, "factory")):
                            gjobs.append({"path": vpath, "folders": folders, "ranks": ranks, "mp": mp, "output": output, "cwd": tmp, "extra": extra, "damaged": dnames,
                                          "damaged_any": bool(damage), "reps": (6 if damage and mp else 1)})
                            gmeta.append((shape, cs, vlabel, damage, perm, mp, output))
            # concurrent independent objects on the intact archive
            for n in ((2, 3) if ctx.thorough else (2,)):
                for _ in range(6 if ctx.thorough else 2):
                    kinds = [rng.choice(["path", "path", "stream"]) for _ in range(n)]
                    order = []
                    seqs = []
                    for i in range(n):
                        s = schedlib.sample_interleaving(rng, shape) if kinds[i] == "path" else tuple(fi for fi in range(k) for _ in range(shape[fi]))
                        cnt = [0] * k
                        names = []
                        for fi in s:
                            names.append("%d:%s" % (i, folders[fi][cnt[fi]][0]))
                            cnt[fi] += 1
                        seqs.append(names)
                    pick = [i for i in range(n) for _ in seqs[i]]
                    rng.shuffle(pick)
                    ptr = [0] * n
                    for i in pick:
                        order.append(seqs[i][ptr[i]])
                        ptr[i] += 1
                    cjobs.append({"path": path, "folders": folders, "order": order, "n": n, "kinds": kinds, "cwd": tmp})
                    cmeta.append((shape, cs, kinds))
            # ... and one of the objects fails (its output for one member cannot be written) before the other has
            # written anything: the failure is the failing object's alone
            if sum(shape) >= 2:
                victim_kind = rng.choice(["path", "path", "stream"])
                bad_member = folders[0][0][0]
                seq_b = schedlib.sample_interleaving(rng, shape) if victim_kind == "path" else tuple(fi for fi in range(k) for _ in range(shape[fi]))
                cnt = [0] * k
                order = ["0:" + bad_member]
                for fi in seq_b:
                    order.append("1:%s" % folders[fi][cnt[fi]][0])
                    cnt[fi] += 1
                cjobs.append({"path": path, "folders": folders, "order": order, "n": 2, "kinds": ["path", victim_kind], "cwd": tmp, "fail": {0: bad_member}})
                cmeta.append((shape, cs, ["path(fails)", victim_kind]))

        # ---------------------------------------------------------------- run
        res = sandbox.pmap(_sched_threads, jobs, timeout=90)
        lines, impl, classes = [], [], []
        for (shape, cs, vlabel, damage, idx, extra), job, (st, val) in zip(meta, jobs, res):
            conf = {"shape": shape, "codecs": cs, "damage": vlabel, "mode": "threads", "schedule": idx}
            alternates = any(idx[i] != idx[i + 1] and idx[i] in idx[i + 1:] for i in range(len(idx) - 1))
            fails_late = bool(damage) and idx and idx[-1] in damage
            ctx.case(key=(str(shape), cs, vlabel, "t", tuple(idx)), nontrivial=alternates or fails_late, sample=conf)
            if st != "ok":
                ctx.fail("C13:threads_" + st, "scheduled extraction did not complete: %s" % str(val)[:300], conf)
                continue
            ctx.count("schedule-enforced", val["enforced"])
            ctx.count("worker-threads-seen", val["threads"])
            for n_, w in val["writes"].items():
                ctx.count("writes-per-member", w)
            if val["alive"]:
                ctx.fail("C13:worker_outlives_call", "worker threads are still alive after extractall returned: %s" % val["alive"], conf)
            names = [n for mem in job["folders"] for n, _ in mem]
            trace_idx = [member_table(job["folders"])[n][1] for n in val["trace"] if n in names]
            if val["enforced"] and trace_idx != list(idx):
                ctx.count("schedule-enforced", "trace-differs")
            lines.append(model_line(job["folders"], damage, trace_idx))
            got = val["line"]
            if len(damage) > 1:
                # two failing workers: the error of the first folder in archive order is the one raised (model: leastOf)
                classes.append("two-damaged")
            else:
                classes.append(vlabel.split("@")[0])
            impl.append(got)
            if vlabel == "intact":
                for n_, d in extra:
                    if val["extra"].get(n_) != d:
                        ctx.fail("C13:extra_member", "the empty member %r was not delivered in thread mode" % n_, conf)
            # the property, directly
            body = got.split(" raise=")[0]
            if "BAD" in body:
                ctx.fail("C13:wrong_bytes", "a member received bytes that differ from its content under schedule %s" % idx, dict(conf, line=got))
            if not damage and ("raise=-" not in got or any(t.endswith("=") for t in body.split())):
                ctx.fail("C13:schedule_dependent_output", "intact archive, schedule %s: %s" % (idx, got), dict(conf, line=got))
            if damage and "raise=-" in got:
                ctx.fail("C13:worker_error_lost", "a worker failed (%s) but extractall returned normally under schedule %s" % (vlabel, idx), dict(conf, line=got))

        def translate(i, m):
            folders = jobs_ok[i]["folders"]
            out = fill_missing(folders, m)
            return out
        jobs_ok = [j for j, (st, _) in zip(jobs, res) if st == "ok"]
        ctx.correspond_model("conc.threads", lines, impl, translate, classes)

        # sequential reference
        res = sandbox.pmap(_sequential, sjobs, timeout=60)
        lines, impl = [], []
        ok_jobs = []
        for (shape, cs, vlabel, damage), job, (st, val) in zip(smeta, sjobs, res):
            conf = {"shape": shape, "codecs": cs, "damage": vlabel, "mode": "sequential"}
            ctx.case(key=(str(shape), cs, vlabel, "s"), nontrivial=False)
            if st != "ok":
                ctx.fail("C13:sequential_" + st, "sequential extraction did not complete: %s" % str(val)[:300], conf)
                continue
            lines.append(model_line(job["folders"], damage, [], mode="s"))
            impl.append(val["line"])
            ok_jobs.append(job)
            if damage and "raise=-" in val["line"]:
                ctx.fail("C13:sequential_error_lost", "damage %s not reported by the sequential path" % vlabel, conf)
        ctx.correspond_model("conc.sequential", lines, impl, lambda i, m: fill_missing(ok_jobs[i]["folders"], m))

        # staggered starts, thread and process workers
        res = sandbox.pmap(_staggered, gjobs, timeout=120, workers=8)
        lines, impl, ok_jobs, classes = [], [], [], []
        for (shape, cs, vlabel, damage, perm, mp, output), job, (st, val) in zip(gmeta, gjobs, res):
            mode = ("processes" if mp else "threads") + "/" + output
            conf = {"shape": shape, "codecs": cs, "damage": vlabel, "mode": mode, "start_order": perm}
            fails_late = bool(damage) and perm[-1] in damage
            ctx.case(key=(str(shape), cs, vlabel, mode, perm), nontrivial=fails_late or (not damage and list(perm) != sorted(perm)), sample=conf)
            ctx.count("staggered-mode", mode)
            if st != "ok":
                ctx.fail("C13:%s_%s" % (mode, st), "extraction did not complete: %s" % str(val)[:300], conf)
                continue
            got = val["line"]
            flat = [fi for fi in perm for _ in range(len(job["folders"][fi]))]
            lines.append(model_line(job["folders"], damage, flat))
            impl.append(got)
            ok_jobs.append(job)
            classes.append("two-damaged" if len(damage) > 1 else mode)
            body = got.split(" raise=")[0]
            if "BAD" in body:
                ctx.fail("C13:wrong_bytes", "%s: a member received wrong bytes" % mode, dict(conf, line=got))
            if not damage and ("raise=-" not in got or any(t.endswith("=") for t in body.split())):
                ctx.fail("C13:mode_dependent_output", "%s, start order %s: output differs from the members: %s" % (mode, perm, got), dict(conf, line=got))
            if not damage:
                for n_, d in job.get("extra", []):
                    if val["extra"].get(n_) != d:
                        ctx.fail("C13:extra_member", "%s: the empty member %r was not delivered" % (mode, n_), conf)
            if damage and "raise=-" in got:
                ctx.fail("C13:worker_error_lost", "%s: a worker failed (%s) but extractall returned normally (start order %s)" % (mode, vlabel, perm), dict(conf, line=got))

        def translate2(i, m):
            out = fill_missing(ok_jobs[i]["folders"], m)
            return out
        ctx.correspond_model("conc.staggered", lines, impl, translate2, classes)

        # decoder failures (not CRC mismatches) in a folder of every codec family, at every folder position: the
        # damaged packed stream makes the codec library itself raise - zlib.error, ZstdError, LZMAError, OSError, ... -
        # and whatever it raises has to reach the caller in every mode
        import py7zr as _p
        djobs, dmeta = [], []
        fams = [("Deflate", [{"id": arclib.FILTER_DEFLATE}]), ("ZStandard", [{"id": arclib.FILTER_ZSTD, "level": 1}]),
                ("BZip2", BZ2), ("LZMA2", LZMA2), ("LZMA", [{"id": arclib.FILTER_LZMA, "preset": 1}]),
                ("Brotli", [{"id": arclib.FILTER_BROTLI, "level": 3}])]
        for fi_, (fam, flt) in enumerate(fams):
            for pos in range(3):
                path = os.path.join(tmp, "dec_%s_%d.7z" % (fam, pos))
                codecs = [COPY, COPY, COPY]
                codecs[pos] = flt
                shape = [1, 2, 1] if (fi_ + pos) % 2 else [2, 1, 1]
                try:
                    folders, _ = schedlib.build_multifolder(path, rng, shape, codecs, sizes=(200, 900))
                except Exception:  # noqa
                    continue
                with _p.SevenZipFile(path) as z:
                    pp = z.header.main_streams.packinfo.packpositions
                raw = bytearray(open(path, "rb").read())
                start, end = 32 + pp[pos], 32 + pp[pos + 1]
                # reserved / impossible stream starts for every codec family, and a stretch of garbage behind it
                raw[start:start + min(8, end - start)] = b"\xff" * min(8, end - start)
                open(path, "wb").write(bytes(raw))
                for mode in ("sequential", "threads", "processes"):
                    djobs.append((path, mode))
                    dmeta.append((fam, pos, shape, mode))
        dres = sandbox.pmap(_decoder_failure, djobs, timeout=120, workers=8)
        for (fam, pos, shape, mode), (st, val) in zip(dmeta, dres):
            conf = {"codec": fam, "damaged_folder": pos, "shape": shape, "mode": mode, "damage": "first bytes of the packed stream overwritten with 0xff"}
            ctx.case(key=("decoder-failure", fam, pos, mode), nontrivial=True, sample=conf)
            ctx.count("decoder-failure/" + mode, str(val) if st == "ok" else st)
            if st != "ok":
                ctx.fail("C13:decoder_failure_" + st, "extraction of an archive with a damaged %s folder did not complete (%s)" % (fam, mode), conf)
            elif val is None:
                ctx.fail("C13:worker_error_lost", "%s: the %s decoder failed in folder %d but extractall returned normally" % (mode, fam, pos), conf)

        # a worker process that dies without a word, and a process that moves between open() and extractall()
        kpath = os.path.join(tmp, "death.7z")
        kfolders, _ = schedlib.build_multifolder(kpath, rng, [2, 1, 2], [COPY, LZMA2, COPY], sizes=(100, 400))
        kres = sandbox.pmap(_worker_death, [(kpath, v) for v in range(3)], timeout=120, workers=3)
        for v, (st, val) in enumerate(kres):
            conf = {"mode": "processes", "dying_worker": v, "how": "SIGKILL inside the worker before it extracts its folder"}
            ctx.case(key=("worker-death", v), nontrivial=True, sample=conf)
            if st != "ok":
                ctx.fail("C13:worker_death_" + st, "extraction did not complete: %s" % str(val)[:200], conf)
            elif val[0] is None:
                ctx.fail("C13:worker_error_lost", "processes: the worker of folder %d died and extractall returned normally with %d of 5 members" % (v, len(val[1])), dict(conf, delivered=val[1]))
            else:
                ctx.count("worker-death", val[0])
        jres = sandbox.pmap(_moved_cwd, [(kpath, False), (kpath, True)], timeout=120, workers=2)
        want = {n: d for mem in kfolders for n, d in mem}
        for mp, (st, val) in zip((False, True), jres):
            conf = {"mode": "processes" if mp else "threads", "how": "archive opened by relative name, os.chdir() elsewhere, then extractall(absolute destination)"}
            ctx.case(key=("moved-cwd", mp), nontrivial=True, sample=conf)
            if st != "ok":
                ctx.fail("C13:moved_cwd_" + st, "extraction did not complete: %s" % str(val)[:200], conf)
            elif val[0] is not None or val[1] != want:
                ctx.fail("C13:mode_dependent_output", "%s: after a change of working directory the open archive no longer extracts (%s, %d of %d members right)"
                         % (conf["mode"], val[0], sum(1 for n in want if val[1].get(n) == want[n]), len(want)), conf)

        # a worker error that does not fit a pipe buffer
        import py7zr
        bpath = os.path.join(tmp, "bigerr.7z")
        longname = "\u3042" * 60000
        with py7zr.SevenZipFile(bpath, "w", filters=[{"id": py7zr.FILTER_COPY}]) as z:
            z.writestr(b"first folder is fine " * 10, "ok.bin")
        marker = b"SECOND-FOLDER-PAYLOAD" * 8
        with py7zr.SevenZipFile(bpath, "a", filters=[{"id": py7zr.FILTER_COPY}]) as z:
            z.writestr(marker, longname)
        raw = bytearray(open(bpath, "rb").read())
        pos = bytes(raw).find(marker)
        raw[pos + 5] ^= 0x01
        open(bpath, "wb").write(bytes(raw))
        for mp, (st, val) in zip((False, True), sandbox.pmap(_big_error, [(bpath, False), (bpath, True)], timeout=40, workers=2)):
            conf = {"mode": "processes" if mp else "threads", "call": "testzip()", "damaged": "second folder (CRC)", "member_name_length": 60000}
            ctx.case(key=("big-error", mp), nontrivial=True, sample=conf)
            if st == "timeout":
                ctx.fail("C13:worker_error_lost", "%s: testzip() never returns when the failing member's name makes the worker's error larger than a pipe buffer" % conf["mode"], conf)
            elif st != "ok":
                ctx.fail("C13:big_error_" + st, "testzip() did not complete: %s" % str(val)[:200], conf)
            elif val != 60000:
                ctx.fail("C13:worker_error_lost", "%s: testzip() does not name the damaged member (returned %r)" % (conf["mode"], val), conf)

        # two damaged folders: the verdict names the same member whichever worker fails first
        tpath = os.path.join(tmp, "twodmg.7z")
        tnames = ["f0.bin", "f1.bin", "f2.bin"]
        for i, nm in enumerate(tnames):
            with py7zr.SevenZipFile(tpath, "w" if i == 0 else "a", filters=[{"id": py7zr.FILTER_COPY}]) as z:
                z.writestr((b"PAYLOAD-%d-" % i) * 40, nm)
        raw = bytearray(open(tpath, "rb").read())
        for i in (0, 2):
            raw[bytes(raw).find(b"PAYLOAD-%d-" % i) + 3] ^= 0x01
        open(tpath, "wb").write(bytes(raw))
        tjobs = [(tpath, "sequential", False)] + [(tpath, m, lf) for m in ("threads", "processes") for lf in (False, True)]
        tres = sandbox.pmap(_two_damaged, tjobs, timeout=120, workers=5)
        verdicts = {}
        for (_, m, lf), (st, val) in zip(tjobs, tres):
            conf = {"mode": m, "damaged": ["f0.bin", "f2.bin"], "later_folder_fails_first": lf, "call": "testzip()"}
            ctx.case(key=("two-damaged", m, lf), nontrivial=True, sample=conf)
            if st != "ok":
                ctx.fail("C13:two_damaged_" + st, "testzip() did not complete: %s" % str(val)[:200], conf)
                continue
            verdicts[(m, lf)] = val
            if val not in ("f0.bin", "f2.bin"):
                ctx.fail("C13:worker_error_lost", "%s: testzip() on an archive with two damaged folders returned %r" % (m, val), conf)
        if len(set(verdicts.values())) > 1:
            ctx.fail("C13:schedule_dependent_output", "testzip() names a different member depending on which worker fails first: %s"
                     % {"%s/%s" % k: v for k, v in verdicts.items()}, {"damaged": ["f0.bin", "f2.bin"], "verdicts": {"%s/%s" % k: v for k, v in verdicts.items()}})

        # duplicate member names, one folder each, and a member literally named like a duplicate's alias: whatever the
        # aliases are, every mode gives the same files with the same bytes, and no member's bytes are lost to another
        import py7zr
        for order in (["a.txt", "a.txt", "a.txt_0"], ["a.txt", "a.txt_0", "a.txt"], ["a.txt_0", "a.txt", "a.txt", "a.txt"]):
            upath = os.path.join(tmp, "dup_%d.7z" % len(order + [x for x in order if x.endswith("_0")]) + str(order.index("a.txt_0")))
            datas = []
            for i, nm in enumerate(order):
                d = (bytes([65 + i]) * (3_000_000 if i < 2 else 10))
                datas.append(d)
                with py7zr.SevenZipFile(upath, "w" if i == 0 else "a", filters=[{"id": py7zr.FILTER_COPY}]) as z:
                    z.writestr(d, nm)
            ures = sandbox.pmap(_dup_names, [(upath, m, None) for m in ("sequential", "threads", "processes")], timeout=120, workers=3)
            outs = {}
            for m, (st, val) in zip(("sequential", "threads", "processes"), ures):
                conf = {"names": order, "mode": m, "layout": "one folder per member"}
                ctx.case(key=("dup", tuple(order), m), nontrivial=True, sample=conf)
                if st != "ok":
                    ctx.fail("C13:dup_names_" + st, "extraction did not complete: %s" % str(val)[:200], conf)
                    continue
                outs[m] = val
                delivered = sorted(v for v in val[1].values())
                want = sorted((len(d), zlib.crc32(d)) for d in datas)
                if val[0] is None and delivered != want:
                    ctx.fail("C13:schedule_dependent_output", "%s: members with colliding output names: %d files for %d members, the bytes of %d member(s) are lost"
                             % (m, len(delivered), len(want), len([w for w in want if w not in delivered])), dict(conf, files={k: v[0] for k, v in val[1].items()}))
            if len(outs) == 3 and len({json.dumps([o[0], sorted(o[1].items())]) for o in outs.values()}) > 1:
                ctx.fail("C13:mode_dependent_output", "the modes disagree on an archive with duplicate member names", {"names": order, "results": {m: {k: v[0] for k, v in o[1].items()} for m, o in outs.items()}})

        # workers meeting at the creation of a shared parent directory
        import py7zr
        hjobs, hmeta = [], []
        for k in (2, 3, 4):
            for depth, shared in ((1, "shared"), (2, "shared")):
                path = os.path.join(tmp, "shared_%d_%d.7z" % (k, depth))
                prefix = "shared/" if depth == 1 else "top/shared/"
                folders = []
                for i in range(k):
                    mem = [("%sm%d_%d.bin" % (prefix, i, j), rng.randbytes(rng.randrange(24, 500))) for j in range(rng.randrange(1, 3))]
                    with py7zr.SevenZipFile(path, "w" if i == 0 else "a", filters=COPY) as z:
                        for n_, d_ in mem:
                            z.writestr(d_, n_)
                    folders.append(mem)
                for mp in (False, True):
                    for _ in range(2):
                        hjobs.append({"path": path, "folders": folders, "mp": mp, "cwd": tmp, "shared": shared})
                        hmeta.append((k, depth, mp))
        res = sandbox.pmap(_shared_dir, hjobs, timeout=120, workers=8)
        for (k, depth, mp), job, (st, val) in zip(hmeta, hjobs, res):
            conf = {"folders": k, "shared_directory_depth": depth, "mode": "processes" if mp else "threads", "output": "directory without directory entries"}
            ctx.case(key=("shared-dir", k, depth, mp), nontrivial=True, sample=conf)
            ctx.count("shared-dir", "processes" if mp else "threads")
            if st != "ok":
                ctx.fail("C13:shared_dir_" + st, "extraction did not complete: %s" % str(val)[:300], conf)
                continue
            want = _render(job["folders"], {n: d for mem in job["folders"] for n, d in mem}, None)
            if val["line"] != want:
                ctx.fail("C13:schedule_dependent_output", "workers creating a shared parent directory at the same time: %s" % val["line"], dict(conf, line=val["line"]))

        # concurrent independent objects
        res = sandbox.pmap(_concurrent_objects, cjobs, timeout=120)
        for (shape, cs, kinds), job, (st, val) in zip(cmeta, cjobs, res):
            conf = {"shape": shape, "codecs": cs, "objects": kinds, "order": job["order"]}
            ctx.case(key=(str(shape), cs, tuple(kinds), tuple(job["order"])), nontrivial=True, sample=conf)
            if st != "ok":
                ctx.fail("C13:concurrent_objects_" + st, "concurrent extraction did not complete: %s" % str(val)[:300], conf)
                continue
            ctx.count("concurrent-enforced", val["enforced"])
            want = _render(job["folders"], {n: d for mem in job["folders"] for n, d in mem}, None)
            for i, ln in enumerate(val["lines"]):
                if i in (job.get("fail") or {}):
                    if "raise=- " in ln + " ":
                        ctx.fail("C13:worker_error_lost", "object %d could not write one of its outputs and its extractall() returned normally: %s" % (i, ln), dict(conf, line=ln))
                    continue
                if ln != want:
                    ctx.fail("C13:objects_disturb_each_other", "object %d of %s delivered %s" % (i, kinds, ln), dict(conf, line=ln))
    finally:
        shutil.rmtree(tmp, ignore_errors=True)


def replay(ctx, data):
    print(str(data.get("failure"))[:2000])
    return 0
