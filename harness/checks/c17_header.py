"""Header-level part of C17: whole-header serialise/parse with extreme values in every field."""
import streams_hdr


def run(ctx):
    streams_hdr.run(ctx, fail_prefix="C17")
