"""Header-level part of C17: whole-header serialise/parse with extreme values in every field."""
import streams_hdr


def run(ctx):
    streams_hdr.run(ctx, fail_prefix="C17")
    # partially defined time / attribute vectors (undefined entries must stay undefined)
    streams_hdr.run(ctx, n_write=(600 if ctx.thorough else 150), n_mut=(1000 if ctx.thorough else 200), partial=True,
                    fail_prefix="C17")
    # folders without sub-streams (sessions that add only directories)
    streams_hdr.run(ctx, n_write=(400 if ctx.thorough else 100), n_mut=(400 if ctx.thorough else 100), empty_folders=True,
                    fail_prefix="C17")
