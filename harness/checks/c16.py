"""C16 — member names are kept relative on write."""
import io
import itertools
import os
import re
import pathlib
import shutil
import tempfile

ID = "C16"
RULE = ("path stream: every name over the component alphabet {a,b,..,.,'',c:,dafj08sajfa,foo} x leading ''|'/'|'//' x "
        "trailing ''|'/' up to N components (exhaustive; N=5 quick, 6 thorough) plus random Unicode names is given to "
        "check_archive_path/_sanitize_archive_arcname/Path.as_posix/canonical_path/get_sanitized_output_path and to the "
        "Lean model; the verdict is also compared with the Lean independent oracle, and re-evaluated with the process "
        "standing in <tmp>/a/b, <tmp>/a and / (it must not depend on the working directory). End-to-end: writestr/writef/write/"
        "writeall on real archives, names listed after close. Non-trivial = name with at least one '..' or absolute prefix "
        "or drive prefix; distinct by name.")
ASSUMPTIONS = ["pathlib.PurePosixPath parsing is as modelled by SevenZ.parse (checked by path.parts/path.str streams)",
               "POSIX flavour only"]


def enc(s):
    return ",".join(str(ord(c)) for c in s) or "-"


def names_exhaustive(maxc):
    alpha = ["a", "b", "..", ".", "", "c:"]
    for n in range(0, maxc + 1):
        for comps in itertools.product(alpha, repeat=n):
            body = "/".join(comps)
            for lead in ("", "/", "//"):
                for trail in ("", "/"):
                    yield lead + body + trail


def names_probe(rng, count):
    probe = ["foo", "boo", "fuga", "hoge", "a90sufoiasj09", "dafj08sajfa"]
    alpha = ["..", "..", "a", ".", ""] + probe
    for _ in range(count):
        n = rng.randrange(1, 9)
        yield "/".join(rng.choice(alpha) for _ in range(n))
    # walk out k levels and back in by name
    for k in range(1, 7):
        yield "/".join([".."] * k + probe[6 - k:] + ["x"])
        yield "/".join([".."] * k + probe[6 - k:])


def names_unicode(rng, count):
    for _ in range(count):
        comps = []
        for _ in range(rng.randrange(1, 6)):
            k = rng.random()
            if k < 0.2:
                comps.append("..")
            elif k < 0.25:
                comps.append(".")
            else:
                comps.append("".join(chr(rng.choice([rng.randrange(0x21, 0x7F), rng.randrange(0xA0, 0x3000), rng.randrange(0x10000, 0x1F000), 0x2E, 0x3A, 0x5C]))
                                     for _ in range(rng.randrange(1, 5))).replace("/", "_"))
        lead = rng.choice(["", "", "", "/", "//", "///", "c:", "C:/", "/c:/", "./", "z:\\"])
        yield lead + "/".join(comps)


def _climbs(name):
    """does a stored member name, read component by component, ever stand above the archive root?"""
    depth = 0
    for part in name.split("/"):
        if part in ("", "."):
            continue
        depth += -1 if part == ".." else 1
        if depth < 0:
            return True
    return False


def run(ctx):
    rng = ctx.rng
    ctx.lean_obligations("SevenZ.Props.C16")
    import py7zr
    from py7zr import helpers

    names = set(names_exhaustive(6 if ctx.thorough else 5))
    names.update(names_probe(rng, 4000 if ctx.thorough else 800))
    names.update(names_unicode(rng, 6000 if ctx.thorough else 1500))
    names = sorted(names)
    ops = {"check": [], "sanitize": [], "sanitize_pathobj": [], "stored": [], "canon": [], "parts": [], "out": []}
    outs = {k: [] for k in ops}
    oracle_lines = []
    verdicts = []
    probe_dir = tempfile.mkdtemp(prefix="verif_c16p_")
    probe_file = pathlib.Path(probe_dir) / "probe.txt"
    probe_file.write_bytes(b"x")
    zobj = py7zr.SevenZipFile(io.BytesIO(), "w")
    for n in names:
        # -- check_archive_path
        try:
            v = helpers.check_archive_path(n)
            vs = "1" if v else "0"
        except Exception as e:  # noqa
            vs = "exc:" + type(e).__name__
        ops["check"].append("path.check " + enc(n))
        outs["check"].append(vs)
        oracle_lines.append("path.oracle " + enc(n))
        verdicts.append(vs)
        # -- _sanitize_archive_arcname + stored name
        try:
            p = zobj._sanitize_archive_arcname(n)
            ps = "ok " + enc(p)
            # the name write()/writeall() really store: through the implementation's own member-record builder
            stored = py7zr.SevenZipFile._make_file_info(probe_file, p, False)["filename"]
        except py7zr.exceptions.AbsolutePathError:
            ps, stored = "err", None
        ops["sanitize"].append("path.sanitize " + enc(n))
        outs["sanitize"].append(ps)
        if stored is not None:
            ops["stored"].append("path.stored " + enc(p))
            outs["stored"].append(enc(stored))
            if stored.startswith("/"):
                ctx.fail("C16:stored_absolute", "write/writeall would store an absolute member name",
                         {"arcname": n, "sanitized": p, "stored": stored})
        if vs == "1":
            # the name writestr()/writef() really store for an accepted name
            stored2 = zobj._make_file_info_from_name(io.BytesIO(b""), 0, n)["filename"]
            ops["stored"].append("path.stored " + enc(n))
            outs["stored"].append(enc(stored2))
            if stored2.startswith("/"):
                ctx.fail("C16:stored_absolute", "writestr/writef accept the name and store an absolute member name",
                         {"arcname": n, "stored": stored2})
            if _climbs(stored2):
                ctx.fail("C16:stored_escapes", "writestr/writef accept the name and store a member name that climbs above the archive root",
                         {"arcname": n, "stored": stored2})
        # the same helper handed a path OBJECT (write(Path(...)) / writeall() with arcname=None): the object's text is what
        # is sanitised, drive-like first components included
        try:
            pobj = pathlib.Path(n) if n else None
            if pobj is not None:
                try:
                    r2 = zobj._sanitize_archive_arcname(pobj)
                    ps2 = "ok " + enc(r2)
                    if r2.startswith("/") or re.match(r"^[a-zA-Z]:", r2):
                        ctx.fail("C16:stored_absolute", "write()/writeall() given the path object %r would store the member name %r: absolute (drive or root) on the systems that read it"
                                 % (str(pobj), r2), {"source_path_object": str(pobj), "stored": r2})
                except py7zr.exceptions.AbsolutePathError:
                    ps2 = "err"
                ops["sanitize_pathobj"].append("path.sanitize " + enc(str(pobj)))
                outs["sanitize_pathobj"].append(ps2)
        except (ValueError, TypeError):
            pass
        ops["canon"].append("path.canon " + enc(n))
        outs["canon"].append(enc(str(helpers.canonical_path(pathlib.Path(n)))))
        pp = pathlib.PurePosixPath(n)
        ops["parts"].append("path.str " + enc(n))
        outs["parts"].append(enc(str(pp)))
        for base in ("/jail/dest", "/"):
            try:
                o = helpers.get_sanitized_output_path(n, pathlib.Path(base))
                os_ = "ok " + enc(str(o))
            except py7zr.exceptions.Bad7zFile:
                os_ = "bad"
            ops["out"].append("path.out %s %s" % (enc(n), enc(base)))
            outs["out"].append(os_)
        nontrivial = ".." in n or n.startswith("/") or ":" in n
        ctx.case(key=n, nontrivial=nontrivial)
    shutil.rmtree(probe_dir, ignore_errors=True)
    for k in ops:
        ctx.correspond("path." + k, ops[k], outs[k])
    # the property itself: implementation verdict == independent oracle (Lean Spec.nameStaysInside)
    oracle = ctx.run_driver(oracle_lines)
    st = ctx.streams.setdefault("path.impl-vs-oracle", {"cases": 0, "disagreements": 0})
    st["cases"] = len(names)
    for n, v, o in zip(names, verdicts, oracle):
        if v != o:
            st["disagreements"] += 1
            probe = {"foo", "boo", "fuga", "hoge", "a90sufoiasj09", "dafj08sajfa"}
            sig = "C16:probe_dir_reentry" if (v == "1" and set(n.split("/")) & probe) else "C16:check_verdict"
            ctx.fail(sig, "check_archive_path verdict differs from the independent definition",
                     {"name": n, "impl": v, "oracle": o})
    # the verdict is a property of the name alone: it must not depend on where the process stands — in a directory
    # whose own components occur in the names (so that '../b' lands back inside it), or at the file-system root
    # (where '..' cannot climb)
    wd = tempfile.mkdtemp(prefix="verif_c16w_")
    old_cwd = os.getcwd()
    st2 = ctx.streams.setdefault("path.check-any-cwd", {"cases": 0, "disagreements": 0})
    try:
        os.makedirs(os.path.join(wd, "a", "b"))
        for cwd in (os.path.join(wd, "a", "b"), os.path.join(wd, "a"), "/"):
            os.chdir(cwd)
            for n, v in zip(names, verdicts):
                try:
                    v2 = "1" if helpers.check_archive_path(n) else "0"
                except Exception as e:  # noqa
                    v2 = "exc:" + type(e).__name__
                st2["cases"] += 1
                if v2 != v:
                    st2["disagreements"] += 1
                    if st2["disagreements"] <= 5:
                        ctx.fail("C16:check_verdict", "check_archive_path verdict depends on the working directory",
                                 {"name": n, "cwd": cwd.replace(wd, "<tmp>"), "verdict_here": v2, "verdict_elsewhere": v})
    finally:
        os.chdir(old_cwd)
        shutil.rmtree(wd, ignore_errors=True)
    ctx.count("verdicts", "accepted", sum(1 for v in verdicts if v == "1"))
    ctx.count("verdicts", "rejected", sum(1 for v in verdicts if v == "0"))

    # ---- end to end: writestr / writef gate, archive unchanged by a rejected call
    # (names with a backslash are outside the quantifier: the reader rewrites '\\' to '/', so the listing is not the stored name)
    sample = rng.sample([n for n in names if "\\" not in n], 400 if ctx.thorough else 120)
    for i in range(0, len(sample), 8):
        chunk = sample[i:i + 8]
        buf = io.BytesIO()
        expected = []
        with py7zr.SevenZipFile(buf, "w") as z:
            z.writestr(b"first", "first.txt")
            expected.append("first.txt")
            for j, n in enumerate(chunk):
                want = oracle[names.index(n)] == "1"
                for how in ("writestr", "writef"):
                    nm = n if how == "writestr" else ("w/" + n if not n.startswith("/") else n)
                    want2 = want if how == "writestr" else want
                    try:
                        if how == "writestr":
                            z.writestr(b"data%d" % j, nm)
                        else:
                            z.writef(io.BytesIO(b"dataf%d" % j), nm)
                        accepted = True
                    except ValueError:
                        accepted = False
                    except Exception as e:  # noqa
                        accepted = "exc:" + type(e).__name__
                    if how == "writestr" and accepted != want2:
                        ctx.fail("C16:writestr_gate", "writestr accepted/rejected a name against the independent definition",
                                 {"name": nm, "accepted": accepted, "oracle": want2})
                    if accepted is True:
                        expected.append(pathlib.Path(nm).as_posix())
                    ctx.case()
            z.writestr(b"last", "last.txt")
            expected.append("last.txt")
        buf.seek(0)
        with py7zr.SevenZipFile(buf, "r") as z:
            got = z.getnames()
        if got != expected:
            ctx.fail("C16:reject_changes_archive", "archive contents differ from the accepted calls only",
                     {"names": chunk, "got": got, "expected": expected})
        for g in got:
            if g.startswith("/"):
                ctx.fail("C16:absolute_member", "closed archive lists an absolute member name", {"member": g})

    # ---- write / writeall of absolute and relative sources, arcname None
    tmp = tempfile.mkdtemp(prefix="verif_c16_")
    old = os.getcwd()
    try:
        src = os.path.join(tmp, "tree")
        os.makedirs(os.path.join(src, "d1", "d2"))
        for rel in ("f0", "d1/f1", "d1/d2/f2", "d1/c:x"):
            with open(os.path.join(src, rel), "wb") as f:
                f.write(rel.encode())
        os.chdir(tmp)
        for label, target, how in (("abs-dir", src, "writeall"), ("abs-file", os.path.join(src, "d1", "f1"), "write"),
                                   ("rel-dir", "tree", "writeall"), ("rel-file", "tree/f0", "write"),
                                   ("dotrel", "./tree/d1", "writeall"), ("slashes", "//" + src.lstrip("/"), "write_dir")):
            arc = os.path.join(tmp, label + ".7z")
            with py7zr.SevenZipFile(arc, "w") as z:
                if how == "writeall":
                    z.writeall(target)
                elif how == "write":
                    z.write(target)
                else:
                    z.write(os.path.join(target, "f0"))
            with py7zr.SevenZipFile(arc, "r") as z:
                got = z.getnames()
            ctx.case(key=("e2e", label), nontrivial=True, sample={"source": target, "how": how, "members": got[:4]})
            for g in got:
                if g.startswith("/") or g.startswith("\\"):
                    ctx.fail("C16:absolute_member", "write/writeall stored an absolute member name",
                             {"source": target, "how": how, "member": g})
    finally:
        os.chdir(old)
        shutil.rmtree(tmp, ignore_errors=True)


def search(ctx, broken):
    """After a broken correspondence: look for a name on which the property itself fails."""
    from py7zr import helpers
    rng = ctx.rng
    names = sorted(set(names_exhaustive(6)) | set(names_probe(rng, 20000)) | set(names_unicode(rng, 20000)))
    oracle = ctx.run_driver(["path.oracle " + enc(n) for n in names])
    for n, o in zip(names, oracle):
        try:
            v = "1" if helpers.check_archive_path(n) else "0"
        except Exception as e:  # noqa
            v = "exc:" + type(e).__name__
        if v != o:
            ctx.fail("C16:check_verdict", "check_archive_path verdict differs from the independent definition",
                     {"name": n, "impl": v, "oracle": o})
            return


def replay(ctx, data):
    from py7zr import helpers
    inp = (data.get("failure") or {}).get("input") or {}
    if "name" in inp:
        print("check_archive_path(%r) = %r" % (inp["name"], helpers.check_archive_path(inp["name"])))
    return 0
