"""C14 — a crash while writing never leaves a file that opens with wrong contents."""
import io
import os
import struct
import zlib

import arclib
import histories
import refreader
import sandbox

ID = "C14"
RULE = ("create and append sessions on small member lists (several chains, raw/encoded/encrypted header, password) run on a "
        "tracing file object that records every seek/write; the file image is reconstructed for EVERY byte-granular prefix "
        "of the operation stream (incl. all positions inside the final 32-byte signature-header rewrite), plus variants with "
        "the last block dropped or the last two writes reordered; every image is opened with py7zr and with the independent "
        "reader: it must be rejected or yield the complete correct member list (append: that of the base or of the result). "
        "crash stream: torn signature headers vs the Lean start-header gate. Non-trivial = image that differs from both the "
        "initial and the final file; distinct by image bytes.")
ASSUMPTIONS = ["what the OS persists at a real crash is modelled as a prefix of the issued writes (optionally last block dropped / reordered)"]


class Tracer(io.BytesIO):
    """BytesIO that records positioned writes."""

    def __init__(self, initial=b""):
        super().__init__(initial)
        self.ops = []

    def write(self, b):
        self.ops.append((self.tell(), bytes(b)))
        return super().write(b)


def apply_ops(base, ops):
    img = bytearray(base)
    for off, d in ops:
        if off > len(img):
            img += bytes(off - len(img))
        img[off:off + len(d)] = d
    return bytes(img)


def _record(job):
    base, members, filters, password, header, mode = job[:6]
    style = job[6] if len(job) > 6 else "str"
    import py7zr
    t = Tracer(base or b"")
    kw = {}
    if filters is not None:
        kw["filters"] = filters
    if password is not None:
        kw["password"] = password
    if header == "encrypted":
        kw["header_encryption"] = True
    with py7zr.SevenZipFile(t, mode, **kw) as z:
        if header == "raw":
            z.set_encoded_header_mode(False)
        if style == "str":
            for i, (n, d) in enumerate(members):
                z.writestr(d, n) if i % 2 == 0 else z.writef(io.BytesIO(d), n)
        else:
            # every way of adding members in one session: writestr, write(path), then writeall() of a tree, then writef
            import shutil
            import tempfile
            work = tempfile.mkdtemp(prefix="verif_c14m_")
            try:
                k = max(1, len(members) // 3)
                for i, (n, d) in enumerate(members[:k]):
                    if i % 2 == 0:
                        z.writestr(d, n)
                    else:
                        p = os.path.join(work, "single_%d" % i)
                        with open(p, "wb") as f:
                            f.write(d)
                        z.write(p, n)
                tree = os.path.join(work, "tree")
                os.makedirs(os.path.join(tree, "sub"))
                for i, (n, d) in enumerate(members[k:]):
                    with open(os.path.join(tree, "sub" if i % 2 else "", "f%d" % i), "wb") as f:
                        f.write(d)
                z.writeall(tree, "t")
                if style == "mixed2":
                    tree2 = os.path.join(work, "tree2")
                    os.makedirs(tree2)
                    with open(os.path.join(tree2, "g"), "wb") as f:
                        f.write(b"second tree " * 7)
                    z.writeall(tree2, "u")
                    z.writef(io.BytesIO(b"last"), "zz-last")
            finally:
                shutil.rmtree(work, ignore_errors=True)
    return t.ops, t.getvalue()


def _open_batch(job):
    images, password = job
    import py7zr
    out = []
    kw = {"password": password} if password else {}
    for img in images:
        names = None
        try:
            fac = py7zr.io.BytesIOFactory(1 << 22)
            with py7zr.SevenZipFile(io.BytesIO(img), "r", **kw) as z:
                names = z.getnames()
                z.extractall(factory=fac)
            got = {}
            for n, p in fac.products.items():
                p.seek(0)
                got[n] = p.read()
            out.append(("ok", names, got))
        except Exception as e:  # noqa
            # opened and listed, but the members cannot be read: the image was ACCEPTED as an archive (a listing tool,
            # an append session, a file manager all go on from here) while its contents are not there
            out.append(("exc", type(e).__name__) if not names else ("listed", names, type(e).__name__))
    return out


def run(ctx):
    rng = ctx.rng
    ctx.lean_obligations("SevenZ.Props.C14")
    # the order in which a session's bytes reach the file, byte for byte: real sessions (scripted codec stages) vs the
    # write sequences the crash theorems quantify over (streams ws.ops / ws.eops / ws.aops)
    import streams_ws
    streams_ws.run_arch(ctx, n=(60 if ctx.thorough else 24), n_app=(200 if ctx.thorough else 50))
    sessions = []
    ch = dict(arclib.chains())
    confs = [("LZMA2", None, "encoded"), ("Copy", None, "raw"), ("Deflate", "pw", "encrypted"), ("BZip2", None, "encoded")]
    if ctx.thorough:
        confs += [("LZMA", None, "raw"), ("ZStandard", "pw", "encoded"), ("X86+LZMA2", None, "encoded"), ("PPMd", None, "raw")]
    jobs, meta = [], []
    for lab, pw, header in confs:
        f = ch[lab] if pw is None else arclib.with_aes(ch[lab])
        m0 = [(n, arclib.gen_content(rng, rng.choice([0, 5, 40, 150]))) for n in arclib.gen_names(rng, rng.randrange(1, 4))]
        jobs.append((None, m0, f, pw, header, "w"))
        meta.append(("create:" + lab, m0, [], pw))
    # bases whose header is as small as it gets (one short name; no member at all), encoded header
    for tag, m0 in (("tiny1", [("a", b"z")]), ("tiny0", [])):
        confs.append(("LZMA2", None, "encoded"))
        jobs.append((None, m0, ch["LZMA2"], None, "encoded", "w"))
        meta.append(("create:LZMA2/" + tag, m0, [], None))
    # members whose bytes are themselves a complete archive (stored verbatim by Copy, and by LZMA2 when incompressible):
    # while the outer start header is still a placeholder or torn, the file contains a valid inner signature header —
    # a reader must still refuse the image, not fall back to whatever archive it can find further on
    inner = arclib.write_archive([("secret-a.txt", b"inner member one"), ("secret-b.txt", rng.randbytes(40))],
                                 filters=ch["Copy"], header="raw")
    inner2 = arclib.write_archive([("in.bin", rng.randbytes(64))], filters=ch["LZMA2"])
    for tag, lab2, hdr2, m0 in (("nested-copy", "Copy", "raw", [("outer.txt", b"outer"), ("inner.7z", inner), ("tail", b"t")]),
                                ("nested-lzma2", "LZMA2", "encoded", [("inner.7z", inner2), ("x", rng.randbytes(30))]),
                                ("nested-first", "Copy", "encoded", [("inner.7z", inner)])):
        confs.append((lab2, None, hdr2))
        jobs.append((None, m0, ch[lab2], None, hdr2, "w"))
        meta.append(("create:%s/%s" % (lab2, tag), m0, [], None))
    # sessions that add members through several calls, a later one being writeall() (the member list is then read off
    # the completed archive, whose own correctness is C01/C02's subject)
    for lab2, hdr2, style in (("LZMA2", "encoded", "mixed"), ("Copy", "raw", "mixed2"), ("Deflate", "encoded", "mixed2")):
        confs.append((lab2, None, hdr2))
        m0 = [("m%d" % i, arclib.gen_content(rng, rng.choice([5, 40, 150]))) for i in range(rng.randrange(4, 8))]
        jobs.append((None, m0, ch[lab2], None, hdr2, "w", style))
        meta.append(("create:%s/%s" % (lab2, style), None, [], None))
    rec = sandbox.pmap(_record, jobs, timeout=120)
    # append sessions on top of the created archives
    ajobs, ameta = [], []
    for (label, m0, _, pw), (st, val), (lab, _, header) in zip(meta, rec, confs):
        if st != "ok":
            ctx.fail("C14:session_failed", "recording a create session failed: %s" % str(val)[:200], {"session": label})
            continue
        ops, final = val
        sessions.append((label, b"", ops, final, [], m0, pw))
        if m0 is None:
            m2 = [("am%d" % i, arclib.gen_content(rng, rng.choice([5, 40]))) for i in range(4)]
            ajobs.append((final, m2, ch[lab], pw, header, "a", "mixed"))
            ameta.append(("append:%s/mixed" % lab, final, None, None, pw))
            continue
        m1 = [(n, arclib.gen_content(rng, rng.choice([1, 30, 100]))) for n in arclib.gen_names(rng, rng.randrange(1, 3))]
        f = ch[lab] if pw is None else arclib.with_aes(ch[lab])
        ajobs.append((final, m1, f, pw, header, "a"))
        ameta.append(("append:" + lab, final, m0, m1, pw))
        if header == "encoded" and pw is None:
            # the new packed data overwrites the old (encoded) header while the old signature header still points at it:
            # vary what the first new bytes are (empty members only, data starting with NUL bytes, another coder)
            nm = arclib.gen_names(rng, 2)
            for tag, m2, f2 in (("tiny-incompressible", [("q", rng.randbytes(rng.choice([3, 20, 100])))], f),
                                ("tiny-copy", [("q", rng.randbytes(5))], ch["Copy"]),
                                ("empty-only", [(nm[0], b""), (nm[1], b"")], f),
                                ("nul-copy", [(nm[0], b"\x00" * 9 + arclib.gen_content(rng, 40))], ch["Copy"]),
                                ("lzma1", [(nm[0], arclib.gen_content(rng, 60))], ch["LZMA"])):
                ajobs.append((final, m2, f2, pw, header, "a"))
                ameta.append(("append:%s/%s" % (lab, tag), final, m0, m2, pw))
    # create sessions (mode 'w') on a file OBJECT that still holds an earlier, longer archive: py7zr does not truncate
    # what it is handed, so until the placeholder is written the old signature header is still in the file, and after
    # it everything beyond the new bytes is old data
    olds = [(label, m0, val[1], pw) for (label, m0, _, pw), (st, val) in zip(meta, rec) if st == "ok" and m0 and pw is None and label.count("/") == 0]
    olds.sort(key=lambda x: -len(x[2]))
    for label, m0, old_final, pw in olds[:2]:
        for lab2, hdr2 in (("Copy", "raw"), ("LZMA2", "encoded")):
            m2 = [("n", b"new")]
            ajobs.append((old_final, m2, ch[lab2], None, hdr2, "w"))
            ameta.append(("create-over-old:%s/%s" % (lab2, label.split(":")[1]), old_final, m0, None, None))
    arec = sandbox.pmap(_record, ajobs, timeout=120)
    for (label, base, m0, m1, pw), (st, val) in zip(ameta, arec):
        if st != "ok":
            ctx.fail("C14:session_failed", "recording an append session failed: %s" % str(val)[:200], {"session": label})
            continue
        ops, final = val
        if label.startswith("create-over-old"):
            sessions.append((label, base, ops, final, m0, [("n", b"new")], pw))
            continue
        sessions.append((label, base, ops, final, m0, (m0 + m1) if m0 is not None else None, pw))

    crash_lines, crash_impl = [], []
    gate_imgs = []
    for label, base, ops, final, before, after, pw in sessions:
        if apply_ops(base, ops) != final:
            ctx.broken.append({"kind": "correspondence", "name": "trace-replay", "detail": "replaying the recorded writes does not reproduce the file for " + label})
            continue
        images = []
        for n in range(len(ops) + 1):
            done = ops[:n]
            if n < len(ops):
                off, d = ops[n]
                for k in range(0, len(d)):
                    images.append(("prefix op%d+%d" % (n, k), apply_ops(base, done + [(off, d[:k])])))
            else:
                images.append(("complete", apply_ops(base, done)))
            # last buffered block dropped / last two reordered
            if n >= 2:
                images.append(("drop-last@%d" % n, apply_ops(base, done[:-2] + done[-1:])))
                images.append(("reorder@%d" % n, apply_ops(base, done[:-2] + [done[-1], done[-2]])))
        ctx.count("images", label, len(images))
        uniq = {}
        for what, img in images:
            uniq.setdefault(img, what)
        imgs = list(uniq)
        batches = [imgs[i:i + 150] for i in range(0, len(imgs), 150)]
        res = sandbox.pmap(_open_batch, [(b, pw) for b in batches], timeout=300)
        refs = refreader.read_many(ctx, imgs, [pw] * len(imgs))
        flat = []
        for (st, val), b in zip(res, batches):
            flat += val if st == "ok" else [("sandbox-" + st,)] * len(b)
        if after is None:
            # member lists read off the complete images, by each reader for itself
            want_after = arclib.read_archive(final, password=pw)
            want_before = arclib.read_archive(base, password=pw) if base else None
            rfin, rbase = refreader.read_many(ctx, [final, base or final], [pw, pw])
            view = lambda rr: ([m["name"] for m in rr["members"]], {m["name"]: (m["data"] or b"") for m in rr["members"]})  # noqa
            want_after_ref, want_before_ref = view(rfin), (view(rbase) if base else None)
        else:
            want_after = ([n for n, _ in after], {n: d for n, d in after})
            want_before = ([n for n, _ in before], {n: d for n, d in before}) if base else None
            want_after_ref, want_before_ref = want_after, want_before
        for img, r, ref in zip(imgs, flat, refs):
            what = uniq[img]
            ctx.case(key=zlib.crc32(img) ^ len(img), nontrivial=img != base and img != final)
            inp = {"session": label, "crash_point": what, "image_len": len(img), "image_hex": img.hex() if len(img) < 3000 else None}
            if r[0] == "ok":
                got = (r[1], r[2])
                okk = got == want_after or (want_before is not None and got == want_before)
                ctx.count("py7zr/" + label.split(":")[0], "accepted-correct" if okk else "ACCEPTED-WRONG")
                if not okk:
                    ctx.fail("C14:accepted_wrong", "a crash image opens successfully with wrong contents (%s): names %r" % (what, r[1][:5]), inp)
            elif r[0] == "listed":
                ctx.count("py7zr/" + label.split(":")[0], "LISTED-UNREADABLE")
                ctx.fail("C14:accepted_unreadable", "a crash image opens and lists %d members (%s) whose data cannot be read (%s)" % (len(r[1]), what, r[2]), inp)
            elif r[0].startswith("sandbox"):
                ctx.fail("C14:open_" + r[0], "opening a crash image did not complete", inp)
            else:
                ctx.count("py7zr/" + label.split(":")[0], "rejected")
            if ref["ok"]:
                gotr = ([m["name"] for m in ref["members"]], {m["name"]: (m["data"] or b"") for m in ref["members"]})
                okr = gotr == want_after_ref or (want_before_ref is not None and gotr == want_before_ref)
                if not okr:
                    ctx.fail("C14:reference_accepts_wrong", "the independent reader accepts a crash image with wrong contents (%s)" % what, inp)
            if len(img) >= 32:
                crash_lines.append("crash.ok " + img[:32].hex())
                crash_impl.append(_impl_start_ok(img[:32]))
            if len(img) <= 3000:
                gate_imgs.append(img)
    if gate_imgs:
        if len(gate_imgs) > 1500:
            gate_imgs = rng.sample(gate_imgs, 1500)
        ctx.correspond("crash.gate", ["crash.gate " + (g.hex() or "-") for g in gate_imgs], [_impl_gate(g) for g in gate_imgs])
    if crash_lines:
        sel = list(range(len(crash_lines)))
        if len(sel) > 4000:
            sel = sorted(rng.sample(sel, 4000))
        ctx.correspond("crash.ok", [crash_lines[i] for i in sel], [crash_impl[i] for i in sel])


def _impl_start_ok(head):
    import py7zr
    from py7zr.archiveinfo import SignatureHeader
    from py7zr.exceptions import Bad7zFile
    f = io.BytesIO(head)
    try:
        if not py7zr.SevenZipFile._check_7zfile(f):
            return "0"
        SignatureHeader.retrieve(f)
        return "1"
    except Bad7zFile:
        return "0"
    except Exception:  # noqa
        return "0"


class _Passed(Exception):
    pass


def _impl_gate(img):
    """the reader's two gates on an image, observed at the point where the verified header bytes are handed to the
    header parser (Header.retrieve, replaced for the duration by a probe; no source change)"""
    import zlib
    import py7zr
    import py7zr.py7zr as core
    real = core.Header.retrieve

    def probe(fp, buffer, start_pos, password=None):
        raise _Passed(buffer.getvalue())
    core.Header.retrieve = staticmethod(probe)
    try:
        try:
            py7zr.SevenZipFile(io.BytesIO(img), "r").close()
            return "opened-without-header"
        except _Passed as e:
            hdr = e.args[0]
            return "ok %d %d" % (len(hdr), zlib.crc32(hdr))
        except Exception:  # noqa  (Bad7zFile; struct.error on an image shorter than 32 bytes: rejected either way)
            return "none"
    finally:
        core.Header.retrieve = real


def replay(ctx, data):
    print(str(data.get("failure"))[:1500])
    return 0
