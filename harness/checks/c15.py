"""C15 — a failed write call does not poison the archive."""
import io
import os
import shutil
import tempfile
import zlib

import arclib
import sandbox

ID = "C15"
RULE = ("ws stream: real write sessions (write/writestr/writef/writeall) with faults injected into call i — source missing, "
        "dangling symlink, FIFO, arcname rejected, stream whose read raises at once, lstat/open raising EACCES/EIO (wrapped "
        "in the child), directory in place of a file — followed by further successful writes, closed explicitly or by the "
        "context manager, compared call by call (raised or not) and member by member with the Lean session model; histories "
        "of 1..5 calls, every single-fault position; mid-read failures (stream raising after k bytes) are checked against "
        "the weaker clause only (never opens with wrong contents). Non-trivial = history with a fault followed by >=1 "
        "successful write; distinct by (history, fault kind, position, close style).")
ASSUMPTIONS = ["as root EACCES cannot be produced by permissions: os.lstat / open are wrapped in the child process"]

FAULTS = ["missing", "dangling", "fifo", "arcname", "badstream", "eacces_lstat", "eio_open", "midread", "inner_eacces"]


class BadStream(io.BytesIO):
    def __init__(self, data, after):
        super().__init__(data)
        self.after = after
        self.given = 0

    def read(self, n=-1):
        if self.given >= self.after:
            raise IOError(5, "injected read failure")
        d = super().read(min(n, self.after - self.given) if n and n > 0 else self.after - self.given)
        self.given += len(d)
        return d


def _session(job):
    calls, close_style, tmp = job
    import py7zr
    work = tempfile.mkdtemp(dir=tmp)
    buf = io.BytesIO()
    raised = []
    last_exc = None
    import builtins
    import pathlib
    real_open, real_lstat, real_plstat = pathlib.Path.open, os.lstat, pathlib.Path.lstat
    z = py7zr.SevenZipFile(buf, "w", filters=[{"id": arclib.FILTER_LZMA2, "preset": 1}])
    try:
        for i, (how, name, data, fault) in enumerate(calls):
            src = os.path.join(work, "src%d" % i)
            try:
                if fault == "arcname":
                    z.writestr(data, "../" + name) if how != "writef" else z.writef(io.BytesIO(data), "/abs/" + name)
                elif fault == "badstream":
                    z.writef(BadStream(data, 0), name)
                elif fault == "midread":
                    z.writef(BadStream(data, max(1, len(data) // 2)), name)
                elif fault == "missing":
                    z.write(src + ".nope", name)
                elif fault == "dangling":
                    os.symlink("no-such-target", src)
                    z.write(src, name)
                elif fault == "fifo":
                    os.mkfifo(src)
                    z.write(src, name)
                elif fault == "inner_eacces":
                    # writeall of a tree in which one inner member cannot be stat'ed
                    os.makedirs(os.path.join(src, "sub"))
                    inner = os.path.join(src, "sub", "f")
                    with open(inner, "wb") as f:
                        f.write(data)
                    # files of the same tree that are archived BEFORE the one that fails (and one after it)
                    for extra in ("a_first.bin", "b_second.bin", "zz_last.bin"):
                        with open(os.path.join(src, extra), "wb") as f:
                            f.write(extra.encode() * 40)
                    real_stat = os.stat

                    def st(p, *a, **k):
                        if not isinstance(p, int) and os.fspath(p) == inner:
                            raise PermissionError(13, "injected", inner)
                        return real_stat(p, *a, **k)

                    def lst2(p, *a, **k):
                        if os.fspath(p) == inner:
                            raise PermissionError(13, "injected", inner)
                        return real_lstat(p, *a, **k)
                    os.stat, os.lstat = st, lst2
                    try:
                        z.writeall(src, name)
                    finally:
                        os.stat, os.lstat = real_stat, real_lstat
                elif fault in ("eacces_lstat", "eio_open"):
                    with open(src, "wb") as f:
                        f.write(data)
                    if fault == "eacces_lstat":
                        def lst(p, *a, **k):
                            if os.fspath(p) == src:
                                raise PermissionError(13, "injected", src)
                            return real_lstat(p, *a, **k)
                        os.lstat = lst
                        pathlib.Path.lstat = lambda self, **k: lst(os.fspath(self))
                    else:
                        def op(self, *a, **k):
                            if os.fspath(self) == src:
                                raise OSError(5, "injected", src)
                            return real_open(self, *a, **k)
                        pathlib.Path.open = op
                    try:
                        z.write(src, name)
                    finally:
                        os.lstat = real_lstat
                        pathlib.Path.open = real_open
                        pathlib.Path.lstat = real_plstat
                elif how == "writestr":
                    z.writestr(data, name)
                elif how == "writef":
                    z.writef(io.BytesIO(data), name)
                elif how == "write":
                    with open(src, "wb") as f:
                        f.write(data)
                    z.write(src, name)
                elif how == "writedir":
                    os.makedirs(src)
                    z.write(src, name)
                elif how == "writeall":
                    os.makedirs(os.path.join(src, "sub"))
                    with open(os.path.join(src, "sub", "f"), "wb") as f:
                        f.write(data)
                    z.writeall(src, name)
                raised.append("-")
                last_exc = None
            except Exception as e:  # noqa
                raised.append(type(e).__name__)
                last_exc = e
        close_exc = None
        try:
            if close_style == "context-exc" and last_exc is not None:
                # the failed call was the last statement of the with-block and its exception leaves the block:
                # the context manager is the one that closes the archive, the caller handles the exception outside
                z.__exit__(type(last_exc), last_exc, last_exc.__traceback__)
            elif close_style in ("context", "context-exc"):
                z.__exit__(None, None, None)
            else:
                z.close()
        except Exception as e:  # noqa
            close_exc = type(e).__name__
    finally:
        shutil.rmtree(work, ignore_errors=True)
    if close_exc:
        return raised, "close:" + close_exc, None, None
    try:
        names, content = arclib.read_archive(buf.getvalue())
        return raised, "ok", names, {k: v for k, v in content.items()}
    except Exception as e:  # noqa
        return raised, "open:" + type(e).__name__, None, None


def gen_histories(rng, thorough):
    out = []
    n = 400 if thorough else 90
    for h in range(n):
        k = rng.randrange(1, 6)
        calls = []
        fault_at = (k - 1 if h % 3 == 0 else rng.randrange(k)) if h % 6 else None
        fault = FAULTS[h % len(FAULTS)]
        for i in range(k):
            how = rng.choice(["writestr", "writef", "write", "write", "writedir", "writeall"])
            data = arclib.gen_content(rng, rng.choice([0, 1, 20, 300]))
            name = "m%d_%s" % (i, how)
            if i == fault_at:
                how2 = how if fault in ("arcname",) else ("writef" if fault in ("badstream", "midread") else ("writeall" if fault == "inner_eacces" else "write"))
                if fault == "midread" and len(data) < 2:
                    data = b"0123456789" * 5
                calls.append((how2, name, data, fault))
            else:
                calls.append((how, name, data, None))
        out.append((calls, rng.choice(["close", "context", "context-exc"] if fault_at == k - 1 else ["close", "context"])))
    return out


def run(ctx):
    rng = ctx.rng
    ctx.lean_obligations("SevenZ.Props.C15")
    tmp = tempfile.mkdtemp(prefix="verif_c15_")
    try:
        hist = gen_histories(rng, ctx.thorough)
        res = sandbox.pmap(_session, [(c, s, tmp) for c, s in hist], timeout=120)
        lines, impl = [], []
        for (calls, style), (st, val) in zip(hist, res):
            faults = [(i, c[3]) for i, c in enumerate(calls) if c[3]]
            conf = {"calls": [(how, name, len(data), fault) for how, name, data, fault in calls], "close": style}
            nontrivial = bool(faults) and any(c[3] is None for c in calls[faults[0][0] + 1:])
            ctx.case(key=(str(conf["calls"]), style), nontrivial=nontrivial, sample=conf)
            for _, f in faults:
                ctx.count("fault", f)
            if st != "ok":
                ctx.fail("C15:session_" + st, "a write session did not complete: %s" % str(val)[:200], conf)
                continue
            raised, status, names, content = val
            # what the successful calls alone would produce
            want_names, want = [], {}
            for how, name, data, fault in calls:
                if fault:
                    continue
                if how == "writeall":
                    want_names += [name, name + "/sub", name + "/sub/f"]
                    want[name + "/sub/f"] = data
                elif how == "writedir":
                    want_names.append(name)
                else:
                    want_names.append(name)
                    want[name] = data
            midread = any(f in ("midread", "inner_eacces") for _, f in faults)
            for i, c in enumerate(calls):
                if (c[3] is not None) != (raised[i] != "-"):
                    ctx.fail("C15:exception_not_seen" if c[3] else "C15:spurious_exception",
                             "call %d (%s, fault=%s) %s" % (i, c[0], c[3], "did not raise" if c[3] else "raised " + raised[i]), dict(conf, raised=raised))
            if midread:
                # weaker clause: never opens successfully with wrong contents
                partial_ok = any(f == "inner_eacces" for _, f in faults)      # members of the tree archived before the failure may stay
                if status == "ok" and ((not partial_ok and names != want_names) or any(content.get(n) != d for n, d in want.items())):
                    ctx.fail("C15:midread_wrong_contents", "after a source failed midway the archive opens with wrong contents", dict(conf, names=names))
                ctx.count("midread-outcome", status)
                continue
            if status != "ok":
                ctx.fail("C15:archive_poisoned", "after a failed write call the archive cannot be closed/read: %s" % status, dict(conf, raised=raised))
                continue
            if names != want_names or any(content.get(n) != d for n, d in want.items()):
                ctx.fail("C15:members_differ", "members after close are not those of the successful calls", dict(conf, names=names, want=want_names))
            # correspondence with the session model (file-level calls only; writeall is three calls)
            toks, ids = [], {}
            for i, (how, name, data, fault) in enumerate(calls):
                if how == "writeall" and not fault:
                    for j, (nm, es, d) in enumerate([(name, 1, b""), (name + "/sub", 1, b""), (name + "/sub/f", 0, data)]):
                        ids[nm] = 100 * (i + 1) + j
                        toks.append("P:%d:%d:%d:%d:1" % (ids[nm], len(d), zlib.crc32(d), es))
                    continue
                ids[name] = 100 * (i + 1)
                kind = {"arcname": "A", "missing": "S", "eacces_lstat": "S", "fifo": "S"}.get(fault, "P")
                okk = 0 if fault in ("dangling", "badstream", "eio_open") else 1
                es = 1 if how == "writedir" and not fault else 0
                toks.append("%s:%d:%d:%d:%d:%d" % (kind, ids[name], len(data), zlib.crc32(data), es, okk))
            lines.append("ws.run 1 " + (";".join(toks) or "."))
            got_ids = [ids[n] for n in names]
            sizes = [len(content[n]) for n in names if n in content]
            crcs = [zlib.crc32(content[n]) for n in names if n in content]
            rflags = []
            for i, (how, name, data, fault) in enumerate(calls):
                rflags += (["0", "0", "0"] if (how == "writeall" and not fault) else ["0" if raised[i] == "-" else "1"])
            impl.append("raised=%s files=%s sizes=%s crcs=%s consistent=1" % ("".join(rflags) or "-", ",".join(map(str, got_ids)) or "-",
                                                                                ",".join(map(str, sizes)) or "-", ",".join(map(str, crcs)) or "-"))
        ctx.correspond("ws.run", lines, impl)
    finally:
        shutil.rmtree(tmp, ignore_errors=True)


def replay(ctx, data):
    print(str(data.get("failure"))[:1500])
    return 0
