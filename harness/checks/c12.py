"""C12 — read sessions are repeatable and never modify the archive."""
import hashlib
import io
import itertools
import os
import shutil
import tempfile
import zlib

import arclib
import sandbox

ID = "C12"
RULE = ("rs stream: real read sessions (call sequences over getnames/list/getinfo/archiveinfo/needs_password/test/testzip/"
        "extractall(factory|path)/extract(T)/reset) on single- and multi-folder, plain and encrypted archives opened by "
        "path and from a stream, compared call by call with the Lean session model (slices translated to checksums); the "
        "property itself: each result equals the same call on a freshly opened archive; SHA-256 of the archive and the "
        "methods invoked on a stream before/after sessions ended by close, context exit or an exception. All disciplined "
        "sequences of length <=3 (quick) / <=4 (thorough) are enumerated, longer ones sampled. Non-trivial = sequence with "
        ">=2 calls of which one decodes; distinct by (archive kind, open mode, sequence).")
ASSUMPTIONS = ["codec determinism; the file system honours 'rb' (read-only) mode"]

CALLS = ["getnames", "list", "getinfo", "archiveinfo", "needs_password", "test", "testzip", "extractall", "extractall_path",
         "extract", "reset"]


def build_archives(rng, tmp):
    """-> list of dict(kind, data, password, folders=[[(id,size)]], files=[(name, kind, bytes)])"""
    out = []
    src = os.path.join(tmp, "srcdirs")
    os.makedirs(os.path.join(src, "d"), exist_ok=True)
    import py7zr

    def session(buf, mode, items, filters=None, password=None):
        kw = {}
        if filters:
            kw["filters"] = filters
        if password:
            kw["password"] = password
        with py7zr.SevenZipFile(buf, mode, **kw) as z:
            for name, kind, data in items:
                if kind == "dir":
                    z.write(os.path.join(src, "d"), name)
                else:
                    z.writestr(data, name)

    def mk(kind, sessions, password=None, filters=None):
        buf = io.BytesIO()
        files = []
        folders = []
        for si, items in enumerate(sessions):
            buf.seek(0)
            session(buf, "w" if si == 0 else "a", items, filters=filters, password=password)
            fol = []
            for name, k, data in items:
                if k == "file":
                    fol.append((len(files), len(data)))
                files.append((name, k, data))
            folders.append(fol)
        out.append({"kind": kind, "data": buf.getvalue(), "password": password, "folders": folders, "files": files})

    s1 = [("a.txt", "file", b"alpha " * 20), ("dd", "dir", None), ("dd/b.bin", "file", rng.randbytes(333)),
          ("e.empty", "file", b""), ("c.txt", "file", b"gamma" * 7)]
    mk("single", [s1])
    s2 = [("x/one.bin", "file", rng.randbytes(100)), ("x", "dir", None), ("x/two.txt", "file", b"two" * 50)]
    s3 = [("late.txt", "file", b"late " * 9)]
    mk("multi", [s1, s2, s3], filters=[{"id": arclib.FILTER_LZMA2, "preset": 1}])
    mk("multi-copy", [s2, s3], filters=[{"id": arclib.FILTER_COPY}])
    mk("encrypted", [s1], password="secret")
    mk("multi-encrypted", [s3, s2], password="secret")
    return out


def folders_token(folders):
    return "|".join(",".join("%d:%d" % m for m in f) for f in folders) or "-"


def call_token(c, arc):
    if c == "extractall_path":
        return "extractall"
    if c.startswith("extract="):
        return c
    return c


def _canon_pure(v):
    return "names"


def _run(job):
    """Run one session on the real implementation. Returns (results, fresh_results, sha_ok, fp_methods)."""
    arc, mode, seq, ending, tmp = job
    import py7zr
    data = arc["data"]
    pw = arc["password"]
    name_to_id = {}
    for i, (n, k, d) in enumerate(arc["files"]):
        name_to_id[n] = i

    class Tracer(io.BytesIO):
        calls = set()

        def write(self, b):
            Tracer.calls.add("write")
            return super().write(b)

        def truncate(self, *a):
            Tracer.calls.add("truncate")
            return super().truncate(*a)

    path = os.path.join(tmp, "arc_%d.7z" % os.getpid())
    with open(path, "wb") as f:
        f.write(data)
    before = hashlib.sha256(data).hexdigest()

    def opener():
        kw = {"password": pw} if pw else {}
        if mode == "path":
            return py7zr.SevenZipFile(path, "r", **kw), None
        t = Tracer(data)
        return py7zr.SevenZipFile(t, "r", **kw), t

    def do(z, c, idx):
        if c == "getnames":
            return "pure:" + repr(z.getnames())
        if c == "list":
            return "pure:" + repr([(f.filename, f.uncompressed, f.is_directory, f.crc32, f.compressed) for f in z.list()])
        if c == "getinfo":
            f = z.getinfo(arc["files"][0][0])
            return "pure:" + repr((f.filename, f.uncompressed))
        if c == "archiveinfo":
            if mode != "path":
                return "pure:skip"
            ai = z.archiveinfo()
            return "pure:" + repr((ai.size, ai.header_size, ai.method_names, ai.solid, ai.blocks, ai.uncompressed))
        if c == "needs_password":
            return "pure:" + repr(z.needs_password())
        if c == "test":
            return "v:" + repr(z.test())
        if c == "testzip":
            return "v:" + repr(z.testzip())
        if c == "reset":
            z.reset()
            return "unit"
        if c == "extractall":
            fac = py7zr.io.BytesIOFactory(1 << 26)
            z.extractall(factory=fac)
            return "d:" + _deliv(fac)
        if c == "extractall_path":
            out = os.path.join(tmp, "out_%d_%d" % (os.getpid(), idx))
            z.extractall(out)
            got = {}
            for n, k, d in arc["files"]:
                p = os.path.join(out, n)
                if k == "file" and os.path.isfile(p):
                    got[n] = open(p, "rb").read()
            shutil.rmtree(out, ignore_errors=True)
            return "d:" + ",".join("%d=%08x:%d" % (name_to_id[n], zlib.crc32(b), len(b)) for n, b in sorted(got.items(), key=lambda x: name_to_id[x[0]]))
        if c.startswith("extract="):
            ids = [int(x) for x in c[8:].split(",")] if c[8:] != "-" else []
            fac = py7zr.io.BytesIOFactory(1 << 26)
            z.extract(targets=[arc["files"][i][0] for i in ids], factory=fac)
            return "d:" + _deliv(fac)
        raise AssertionError(c)

    def _deliv(fac):
        items = []
        for n, p in fac.products.items():
            p.seek(0)
            b = p.read()
            if arc["files"][name_to_id[n]][1] == "file":
                items.append((name_to_id[n], zlib.crc32(b), len(b)))
        return ",".join("%d=%08x:%d" % it for it in sorted(items))

    def safe(z, c, idx):
        try:
            return do(z, c, idx)
        except Exception as e:  # noqa
            return "exc:" + type(e).__name__

    results = []
    z, tr = opener()
    try:
        for i, c in enumerate(seq):
            results.append(safe(z, c, i))
        if ending == "exception":
            try:
                with z:
                    raise KeyError("boom")
            except KeyError:
                pass
        elif ending == "context":
            with z:
                pass
        else:
            z.close()
    except Exception as e:  # noqa
        results.append("end-exc:" + type(e).__name__)
    fresh = []
    for i, c in enumerate(seq):
        z2, _ = opener()
        fresh.append(safe(z2, c, 100 + i))
        try:
            z2.close()
        except Exception:  # noqa
            pass
    after = hashlib.sha256(open(path, "rb").read()).hexdigest() if mode == "path" else hashlib.sha256(tr.getvalue()).hexdigest()
    os.unlink(path)
    return results, fresh, before == after, sorted(Tracer.calls)


def _self_overwrite(job):
    """a member whose output path IS the archive being read (extraction into the archive's own directory)"""
    arcrel, member, how, tmp = job
    import hashlib
    import py7zr
    d = tempfile.mkdtemp(dir=tmp)
    arc = os.path.join(d, arcrel)
    os.makedirs(os.path.dirname(arc), exist_ok=True)
    with py7zr.SevenZipFile(arc, "w") as z:
        z.writestr(b"first member " * 20, "first.txt")
        z.writestr(b"this member is named like the archive " * 50, member)
        z.writestr(b"last", "last.txt")
    if member == "@dirlink":
        # the archive itself carries a directory link back to its own directory, and a member below that link named
        # like the archive: the output path reaches the archive only once the link has been made
        os.makedirs(os.path.join(d, "lsrc"))
        os.symlink(".", os.path.join(d, "lsrc", "dl"))
        with py7zr.SevenZipFile(arc, "w") as z:
            z.writestr(b"first member " * 20, "first.txt")
            z.write(os.path.join(d, "lsrc", "dl"), "dl")
            z.writestr(b"payload written through the link " * 60, "dl/" + os.path.basename(arcrel))
        shutil.rmtree(os.path.join(d, "lsrc"))
    before = open(arc, "rb").read()
    raised = None
    old = os.getcwd()
    opened = arc
    if how.startswith("alias-"):
        # the archive opened under another name of the same file
        opened = os.path.join(os.path.dirname(arc), "alias_" + os.path.basename(arc))
        (os.symlink if how == "alias-symlink" else os.link)(arc, opened)
    try:
        if how == "stream":
            f = open(arc, "rb")
            z = py7zr.SevenZipFile(f, "r")
        else:
            z = py7zr.SevenZipFile(opened, "r")
        try:
            if how == "cwd":
                os.chdir(d)
                z.extractall()
            elif how == "targets":
                z.extract(path=d, targets=[member])
            else:
                z.extractall(path=d)
        finally:
            os.chdir(old)
            z.close()
            if how == "stream":
                f.close()
    except Exception as e:  # noqa
        raised = type(e).__name__
    after = open(arc, "rb").read() if os.path.isfile(arc) else None
    shutil.rmtree(d, ignore_errors=True)
    return {"raised": raised, "unchanged": after == before, "before": len(before), "after": None if after is None else len(after),
            "sha_before": hashlib.sha256(before).hexdigest()[:12]}


def _verdicts(job):
    """damaged archive: run the call sequence, return the result of every call (verdicts as strings)"""
    data, mode, seq, tmp = job
    import py7zr
    path = os.path.join(tmp, "dmg_%d.7z" % os.getpid())
    with open(path, "wb") as f:
        f.write(data)
    src = path if mode == "path" else open(path, "rb")
    out = []
    try:
        with py7zr.SevenZipFile(src, "r") as z:
            for c in seq:
                try:
                    if c == "testzip":
                        out.append("testzip=%s" % z.testzip())
                    elif c == "test":
                        out.append("test=%s" % z.test())
                    elif c == "getnames":
                        z.getnames()
                        out.append("names")
                    elif c == "reset":
                        z.reset()
                        out.append("unit")
                    elif c == "extractall":
                        z.extractall(factory=py7zr.io.NullIOFactory())
                        out.append("extracted")
                except Exception as e:  # noqa
                    out.append("exc:" + type(e).__name__)
    finally:
        if mode != "path":
            src.close()
        os.unlink(path)
    return out


VERDICT_SEQS = [["testzip"], ["test", "testzip"], ["testzip", "testzip"], ["getnames", "testzip", "reset", "testzip"],
                ["extractall", "reset", "testzip", "test", "testzip"], ["testzip", "reset", "extractall"], ["test", "test", "testzip"]]


def damaged_verdicts(ctx, arcs, tmp):
    """'the integrity verdicts are right at any point of a session': on archives with one damaged member (Copy
    folders, so the damaged member is known), testzip() must name that member wherever it stands in the session,
    by path and from a stream, and extraction must raise"""
    jobs, meta = [], []
    for arc in arcs:
        if arc["kind"] not in ("multi-copy",):
            continue
        raw = arc["data"]
        for mid, (name, kind, data) in enumerate(arc["files"]):
            if kind != "file" or len(data) < 24 or raw.count(data) != 1:
                continue
            pos = raw.find(data)
            d = bytearray(raw)
            d[pos + len(data) // 2] ^= 0x41
            for mode in ("path", "stream"):
                for seq in VERDICT_SEQS:
                    jobs.append((bytes(d), mode, seq, tmp))
                    meta.append((arc["kind"], name, mode, seq))
    res = sandbox.pmap(_verdicts, jobs, timeout=60)
    for (kind, name, mode, seq), (st, val) in zip(meta, res):
        conf = {"archive": kind + " with one byte of %r changed" % name, "open": mode, "calls": seq}
        ctx.case(key=("damaged", kind, name, mode, tuple(seq)), nontrivial=len(seq) >= 2, sample=conf)
        ctx.count("damaged-sessions", mode)
        if st != "ok":
            ctx.fail("C12:damaged_session_" + st, "session on a damaged archive did not complete: %s" % str(val)[:200], conf)
            continue
        for c, r in zip(seq, val):
            if c == "testzip" and r != "testzip=%s" % name:
                ctx.fail("C12:verdict_wrong", "testzip() says %s at this point of the session, the damaged member is %r" % (r, name), dict(conf, results=val))
                break
            if c == "extractall" and not r.startswith("exc:"):
                ctx.fail("C12:verdict_wrong", "extractall succeeds on the damaged archive (%s)" % r, dict(conf, results=val))
                break


def disciplined(seq):
    dirty = False
    for c in seq:
        if c == "reset":
            dirty = False
        elif c in ("extractall", "extractall_path") or c.startswith("extract="):
            if dirty:
                return False
            dirty = True
        elif c == "testzip":
            dirty = True
    return True


def sequences(rng, arc, thorough):
    data_ids = [i for i, (n, k, d) in enumerate(arc["files"]) if k == "file"]
    pick = lambda: "extract=" + ",".join(str(i) for i in sorted(rng.sample(data_ids, rng.randrange(1, len(data_ids) + 1))))  # noqa
    alpha = ["getnames", "list", "test", "testzip", "extractall", "extractall_path", "EXTRACT", "reset", "getinfo", "archiveinfo", "needs_password"]
    seqs = []
    maxlen = 4 if thorough else 3
    core = ["getnames", "test", "testzip", "extractall", "EXTRACT", "reset"] if not thorough else alpha[:8]
    for n in range(1, maxlen + 1):
        for tup in itertools.product(core if n > 2 else alpha, repeat=n):
            s = [pick() if c == "EXTRACT" else c for c in tup]
            if disciplined(s):
                seqs.append(s)
    for _ in range(300 if thorough else 60):
        n = rng.randrange(4, 6)
        s = [rng.choice(alpha) for _ in range(n)]
        s = [pick() if c == "EXTRACT" else c for c in s]
        if disciplined(s):
            seqs.append(s)
    # a few undisciplined ones: only compared with the model (which predicts the stall), not required to repeat
    extra = [["extractall", "extractall"], ["testzip", "extractall"], ["extractall", pick()], [pick(), "testzip", "extractall"]]
    return seqs, extra


def run(ctx):
    rng = ctx.rng
    ctx.lean_obligations("SevenZ.Props.C12")
    tmp = tempfile.mkdtemp(prefix="verif_c12_")
    try:
        arcs = build_archives(rng, tmp)
        jobs, meta = [], []
        for arc in arcs:
            seqs, extra = sequences(rng, arc, ctx.thorough)
            if not ctx.thorough and len(seqs) > 150:
                short = [s for s in seqs if len(s) <= 2]
                seqs = short + rng.sample([s for s in seqs if len(s) > 2], 150 - min(150, len(short)) if len(short) < 150 else 20)
            for s in seqs:
                mode = rng.choice(["path", "stream"])
                jobs.append((arc, mode, s, rng.choice(["close", "context", "exception"]), tmp))
                meta.append(True)
            for s in extra:
                jobs.append((arc, rng.choice(["path", "stream"]), s, "close", tmp))
                meta.append(False)
        # extraction into the archive's own directory of a member named like the archive
        sjobs = [(arcrel, member, how, tmp) for arcrel, member in (("a.7z", "a.7z"), ("sub/x.7z", "sub/x.7z"), ("a.7z", "b/../a.7z"))
                 for how in ("path", "stream", "cwd", "targets")]
        sjobs += [("a.7z", "a.7z", "alias-symlink", tmp), ("a.7z", "a.7z", "alias-hardlink", tmp), ("a.7z", "@dirlink", "path", tmp), ("a.7z", "@dirlink", "stream", tmp)]
        for (arcrel, member, how, _), (st, val) in zip(sjobs, sandbox.pmap(_self_overwrite, sjobs, timeout=60)):
            conf = {"archive_path": "<dir>/" + arcrel, "member": member, "extract_into": "<dir>", "how": how}
            ctx.case(key=("self", arcrel, member, how), nontrivial=True, sample=conf)
            if st != "ok":
                if "ValueError" in str(val) or "rejected" in str(val):
                    continue        # the writer refused the member name (C16): nothing to read
                ctx.fail("C12:session_" + st, "a read session did not complete: %s" % str(val)[:200], conf)
                continue
            ctx.count("self-named-member", "%s/%s" % (how, val["raised"] or "returned"))
            if not val["unchanged"]:
                ctx.fail("C12:archive_modified", "extracting into the archive's own directory overwrote the archive with its member of the same name (%d -> %s bytes; the call %s)"
                         % (val["before"], val["after"], "raised " + val["raised"] if val["raised"] else "returned"), dict(conf, result=val))
        res = sandbox.pmap(_run, jobs, timeout=60)
        lines, impl, classes, trans = [], [], [], []
        for (arc, mode, seq, ending, _), disc, (st, val) in zip(jobs, meta, res):
            key = (arc["kind"], mode, tuple(seq), ending)
            nontrivial = len(seq) >= 2 and any(c in ("extractall", "extractall_path", "testzip") or c.startswith("extract=") for c in seq)
            ctx.case(key=key, nontrivial=nontrivial, sample={"archive": arc["kind"], "open": mode, "calls": seq, "ending": ending})
            inp = {"archive": arc["kind"], "open": mode, "calls": seq, "ending": ending, "archive_hex": arc["data"].hex(), "password": arc["password"]}
            if st != "ok":
                ctx.fail("C12:session_" + st, "a read session did not complete: %s %s" % (st, str(val)[:200]), inp)
                continue
            results, fresh, sha_ok, fpcalls = val
            ctx.count("ending", ending)
            ctx.count("archive", arc["kind"] + "/" + mode)
            if not sha_ok or fpcalls:
                ctx.fail("C12:archive_modified", "a read-mode session changed the archive bytes or called %s on the stream" % fpcalls, inp)
            if disc:
                for i, (r, f) in enumerate(zip(results, fresh)):
                    if r != f:
                        ctx.fail("C12:not_repeatable", "call %d (%s) gives %s in the session but %s on a freshly opened archive" % (i, seq[i], r[:120], f[:120]), inp)
                        break
                if len(results) != len(seq):
                    ctx.fail("C12:close_failed", "ending the session raised: %s" % results[-1], inp)
            # correspondence with the session model
            lines.append("rs.run 1 %s %s" % (folders_token(arc["folders"]), ";".join(call_token(c, arc) for c in seq)))
            impl.append(";".join(_to_model_vocab(r) for r in results[:len(seq)]))
            trans.append(arc)
            classes.append(arc["kind"] + ("" if disc else "/undisciplined"))

        def translate(i, m):
            arc = trans[i]
            fcontent = []
            for fol in arc["folders"]:
                fcontent.append(b"".join(arc["files"][mid][2] for mid, _ in fol))
            outs = []
            for part in m.split(";"):
                if part.startswith("d:"):
                    items = []
                    if part[2:] != "-":
                        for s in part[2:].split(","):
                            mid, restp = s.split("@")
                            fo, rest2 = restp.split("+")
                            off, size = rest2.split("/")
                            b = fcontent[int(fo)][int(off):int(off) + int(size)]
                            items.append("%d=%08x:%d" % (int(mid), zlib.crc32(b), len(b)))
                    outs.append("d:" + ",".join(items))
                else:
                    outs.append(part)
            return ";".join(outs)

        ctx.correspond_model("rs.run", lines, impl, translate, classes)
        damaged_verdicts(ctx, arcs, tmp)
    finally:
        shutil.rmtree(tmp, ignore_errors=True)


def _to_model_vocab(r):
    if r.startswith("pure:"):
        return "names"
    if r == "unit":
        return "unit"
    if r.startswith("v:"):
        return "vok" if r in ("v:None", "v:True") else "vbad"
    if r == "exc:DecompressionError":
        return "stall"
    return r


def replay(ctx, data):
    print(data.get("failure"))
    return 0
