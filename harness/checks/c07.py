"""C07 — writer conformance: output is well-formed 7z that an independent reader accepts."""
import shutil
import tempfile

import histcheck
import streams_hdr
import streams_ws

ID = "C07"
RULE = ("hdr stream (Header.write byte-for-byte vs the Lean model, all sections) + cmp.run stream (SevenZipCompressor's block "
        "loop, stage counters, packsize, digest, unpacksizes with scripted codec stages vs the Lean compressor model) + ws.arch "
        "stream (whole create sessions of the real SevenZipFile on BytesIO with scripted codec stages: the Lean session model "
        "predicts the archive file byte for byte — signature header, packed area, raw header — for every documented chain "
        "+/-password, directories, empty members, block sizes 1..64) + exploration: write/append histories "
        "(1..3 sessions, every documented chain, +/-7zAES with a non-ASCII password, header raw/encoded/encrypted, members "
        "via writestr/writef/write incl. directories, empty files, symlinks) built through py7zr; after every session the "
        "archive is parsed by the Lean strict reader (every count, size, vector length, END marker, tiling of packed "
        "sizes) and decoded with codec libraries + an independent 7zAES KDF, and the recovered members are compared with "
        "what was written. Non-trivial = archive with >=2 members; distinct by (history, chains, header mode, password).")
ASSUMPTIONS = ["the strict reader is my reading of docs/archive_format.rst, validated against 55 third-party fixtures",
               "zero-size sub-streams for empty files are accepted by 7-Zip's reader: reported as warnings, not violations"]


def run(ctx):
    ctx.lean_obligations("SevenZ.Props.C07")
    streams_hdr.run(ctx, fail_prefix="C07")
    streams_hdr.run(ctx, n_write=(400 if ctx.thorough else 100), n_mut=1, partial=True, empty_folders=True, fail_prefix="C07")
    streams_ws.run(ctx)
    tmp = tempfile.mkdtemp(prefix="verif_c07_")
    try:
        histcheck.run(ctx, "C07", 400 if ctx.thorough else 60, tmp, max_sessions=3, check_py7zr=False)
    finally:
        shutil.rmtree(tmp, ignore_errors=True)


def replay(ctx, data):
    print(data.get("failure"))
    return 0
