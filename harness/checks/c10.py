"""C10 — listings tell the truth about the archive."""
import io
import os
import shutil
import tempfile
import zlib

import arclib
import histories
import refreader
import refwriter
import sandbox
import checks.c06 as c06

ID = "C10"
RULE = ("archives from write/append histories (every chain, +/-password, mixed encrypted+plain sessions), reference-writer "
        "layouts and third-party fixtures: getnames == namelist == list == files in stored order; list sizes/CRCs vs the "
        "bytes extractall delivers; is_directory vs what extraction to a directory creates; getinfo on every listed name "
        "(with/without trailing slash) and on absent names; archiveinfo totals/blocks/solid/method names and "
        "needs_password vs the independent reader's view of folders and coders and vs the Lean summary model (ls stream). "
        "Non-trivial = archive with >=2 members; distinct by archive bytes.")
ASSUMPTIONS = ["the independent reader supplies the ground truth for folders and coder ids"]


def _listing(job):
    data, password, tmp = job
    import py7zr
    out = {}
    kw = {"password": password} if password else {}
    path = os.path.join(tmp, "l_%d.7z" % os.getpid())
    with open(path, "wb") as f:
        f.write(data)
    try:
        # every second archive is listed from a caller-supplied binary stream instead of a path
        src = io.BytesIO(data) if zlib.crc32(data) % 2 else path
        with py7zr.SevenZipFile(src, "r", **kw) as z:
            out["getnames"] = z.getnames()
            out["namelist"] = z.namelist()
            lst = z.list()
            out["list"] = [(f.filename, f.uncompressed, f.is_directory, f.crc32) for f in lst]
            out["files"] = [f.filename for f in z.files]
            out["files_isdir"] = [bool(f.is_directory) for f in z.files]
            out["needs_password"] = z.needs_password()
            gi = []
            for n in out["getnames"]:
                a = z.getinfo(n)
                b = z.getinfo(n + "/")
                gi.append((a.filename, b.filename))
            out["getinfo"] = gi
            try:
                z.getinfo("no/such/member\x00")
                out["absent"] = "found"
            except KeyError:
                out["absent"] = "KeyError"
            ai = z.archiveinfo()
            out["archiveinfo"] = (ai.uncompressed, ai.blocks, ai.solid, list(ai.method_names), ai.size)
        try:
            names, content = arclib.read_archive(data, password=password)
            out["content"] = {k: (len(v), zlib.crc32(v)) for k, v in content.items()}
        except Exception as e:  # noqa
            out["content"] = "exc:" + type(e).__name__
        dest = os.path.join(tmp, "x_%d" % os.getpid())
        try:
            with py7zr.SevenZipFile(path, "r", **kw) as z:
                z.extractall(dest)
            out["isdir"] = {n: os.path.isdir(os.path.join(dest, n.lstrip("/"))) and not os.path.islink(os.path.join(dest, n.lstrip("/"))) for n in out["getnames"]}
        except Exception as e:  # noqa
            out["isdir"] = "exc:" + type(e).__name__
        shutil.rmtree(dest, ignore_errors=True)
    finally:
        os.unlink(path)
    return out


def _open_session_listing(job):
    """the listing interfaces inside a WRITE or APPEND session, before close(): every name the session lists is found
    by getinfo (with and without a trailing slash), in the order getnames/namelist/list/files agree on"""
    mode, base, members = job
    import py7zr
    buf = io.BytesIO(base or b"")
    out = []
    with py7zr.SevenZipFile(buf, mode) as z:
        for step, (name, data) in enumerate(members):
            if data is None:
                z.writestr(b"", name)
            else:
                z.writestr(data, name)
            names = z.getnames()
            same = names == z.namelist() == [f.filename for f in z.list()] == [f.filename for f in z.files]
            found = []
            for n in names:
                try:
                    found.append(z.getinfo(n).filename == n and z.getinfo(n + "/").filename == n)
                except KeyError:
                    found.append(False)
            out.append((names, same, found))
    return out


def gen_archives(ctx, rng, tmp):
    """-> list of (label, bytes, open password, supplied?)"""
    out = []
    n = 60 if ctx.thorough else 14
    for _ in range(n):
        sessions, filters = histories.gen_history(rng, tmp, rng.choice([1, 2, 3]))
        mode = rng.choice(["plain", "plain", "enc", "enc-then-plain", "plain-then-enc"])
        buf = io.BytesIO()
        ok = True
        for i, (items, (lab, f)) in enumerate(zip(sessions, filters)):
            pw = None
            if mode == "enc" or (mode == "enc-then-plain" and i == 0) or (mode == "plain-then-enc" and i > 0):
                pw = "pw"
                f = arclib.with_aes(f)
            try:
                histories.run_session(buf, "w" if i == 0 else "a", items, tmp, filters=f, password=pw, header="encoded")
            except Exception as e:  # noqa
                ok = False
                break
        if ok:
            uses_pw = mode != "plain" and not (mode == "plain-then-enc" and len(sessions) == 1)
            out.append(("hist:" + mode, buf.getvalue(), "pw" if uses_pw else None))
            if uses_pw:
                out.append(("hist:" + mode + ":nopw", buf.getvalue(), None))
    # layouts and member-property patterns py7zr's own writer never produces (undefined attributes or times,
    # Windows-style attribute words, no EmptyFile vector): every listing interface must derive kinds the same way
    for feat in ("multi-folder", "nonsolid", "folder-crc", "no-crc", "nums-explicit", "no-substreams", "aes", "combo", "plain",
                 "no-attr", "partial-attr", "no-mtime", "partial-mtime", "win-attr", "no-emptyfile-vector", "combo", "combo"):
        members = c06.tweak_members(rng, c06.gen_logical(rng), feat)
        if feat in ("no-attr", "partial-attr") and not any(m["kind"] == "dir" for m in members):
            members.append({"name": "onlydir%d" % len(members), "kind": "dir", "data": b"", "attr": None, "mtime": 130000000000000000, "ctime": None, "atime": None})
        lay = c06.gen_layout(rng, members, feat)
        out.append(("ref:" + feat, refwriter.build(members, lay, rng), lay["password"]))
    # a password supplied where no content folder has an encryption coder: a plain archive opened with an unneeded
    # password, and header encryption over content whose chain was given without 7zAES
    small = [("pw/a.txt", b"alpha" * 9), ("pw/b.txt", b"beta" * 7), ("pw/c.bin", bytes(range(60)))]
    out.append(("own:plain+unneeded-password", arclib.write_archive(small), "unneeded"))
    out.append(("own:plain-raw+unneeded-password", arclib.write_archive(small[:2], header="raw"), "x"))
    out.append(("own:header-encrypted/content-LZMA2-only", arclib.write_archive(small, filters=[{"id": arclib.FILTER_LZMA2, "preset": 1}], password="pw", header="encrypted"), "pw"))
    out.append(("own:header-encrypted/content-Copy-only", arclib.write_archive(small, filters=[{"id": arclib.FILTER_COPY}], password="pw", header="encrypted"), "pw"))
    out.append(("own:header-encrypted", arclib.write_archive(small, password="pw", header="encrypted"), "pw"))
    out.append(("own:content-encrypted", arclib.write_archive(small, password="pw"), "pw"))
    for fn in ("test_1.7z", "test_6.7z", "solid.7z", "umlaut-non_solid.7z", "mblock_1.7z", "encrypted_1.7z", "lzma2delta_1.7z", "copy.7z", "test_folder.7z", "empty.7z"):
        p = os.path.join("/repo/tests/data", fn)
        if os.path.exists(p):
            out.append(("fixture:" + fn, open(p, "rb").read(), "secret" if "encrypt" in fn else None))
    return out


def run(ctx):
    rng = ctx.rng
    ctx.lean_obligations("SevenZ.Props.C10")
    tmp = tempfile.mkdtemp(prefix="verif_c10_")
    try:
        arcs = gen_archives(ctx, rng, tmp)
        refs = refreader.read_many(ctx, [a[1] for a in arcs], [a[2] or ("pw" if a[0].startswith("hist") else None) for a in arcs])
        res = sandbox.pmap(_listing, [(a[1], a[2], tmp) for a in arcs], timeout=120)
        l1, o1, l2, o2, l3, o3 = [], [], [], [], [], []
        for (label, data, pw), ref, (st, val) in zip(arcs, refs, res):
            ctx.case(key=zlib.crc32(data), nontrivial=ref.get("ok") and len(ref["members"]) >= 2, sample={"archive": label, "members": len(ref.get("members", []))})
            inp = {"archive": label, "password": pw, "archive_hex": data.hex() if len(data) < 5000 else None}
            if st != "ok":
                if pw is None and st == "exc" and val[0] == "PasswordRequired":
                    ctx.count("outcome", "PasswordRequired-at-open")
                    continue
                ctx.fail("C10:listing_raises", "listing calls failed on %s: %s %s" % (label, st, str(val)[:200]), inp)
                continue
            v = val
            ctx.count("outcome", label.split(":")[0] + "/ok")
            if not (v["getnames"] == v["namelist"] == [x[0] for x in v["list"]] == v["files"]):
                ctx.fail("C10:names_differ", "getnames/namelist/list/files disagree", dict(inp, getnames=v["getnames"][:5], list=[x[0] for x in v["list"]][:5]))
            if ref["ok"] and [m["name"] for m in ref["members"] if m["name"] is not None] == [m["name"] for m in ref["members"]]:
                want = [m["name"].replace("\\", "/") for m in ref["members"]]
                if v["getnames"] != want:
                    ctx.fail("C10:names_order", "names are not the stored names in stored order", dict(inp, got=v["getnames"][:6], want=want[:6]))
            if isinstance(v["content"], dict):
                seen = {}
                for (name, size, isdir, crc) in v["list"]:
                    key = name.lstrip("/")
                    if name in seen:
                        key = key + "_%d" % (seen[name] - 1)
                    seen[name] = seen.get(name, 0) + 1
                    if key in v["content"]:
                        ln, c = v["content"][key]
                        if size != ln:
                            ctx.fail("C10:size", "list() reports %s bytes for %r, extraction delivers %d" % (size, name, ln), inp)
                        if crc is not None and crc != c:
                            ctx.fail("C10:crc", "list() reports CRC %08x for %r, extracted bytes have %08x" % (crc, name, c), inp)
            if isinstance(v["isdir"], dict):
                for (name, size, isdir, crc) in v["list"]:
                    if v["isdir"].get(name) is not None and isdir != v["isdir"][name]:
                        ctx.fail("C10:is_directory", "list() says is_directory=%s for %r but extraction created %s" % (isdir, name, "a directory" if v["isdir"][name] else "no directory"), inp)
            if [bool(x[2]) for x in v["list"]] != v["files_isdir"]:
                k = next(i for i, (x, y) in enumerate(zip(v["list"], v["files_isdir"])) if bool(x[2]) != y)
                ctx.fail("C10:is_directory_interfaces", "list() says is_directory=%s for %r, files says %s" % (v["list"][k][2], v["list"][k][0], v["files_isdir"][k]), inp)
            for n, (a, b) in zip(v["getnames"], v["getinfo"]):
                if a != n or b != n:
                    ctx.fail("C10:getinfo", "getinfo(%r) / getinfo(%r + '/') returned %r / %r" % (n, n, a, b), inp)
            if v["absent"] != "KeyError":
                ctx.fail("C10:getinfo_absent", "getinfo of an absent name did not raise KeyError", inp)
            if ref["ok"]:
                streams = ref["streams"]
                folders = streams["folders"] if streams else []
                ids = [[c["method"] if c["method"] != "-" else "00" for c in f["coders"]] for f in folders]
                nums = streams["nums"] if streams else []
                total = sum(m["size"] for m in ref["members"])
                unc, blocks, solid, mnames, size = v["archiveinfo"]
                ftok = "|".join(",".join(i) for i in ids) or "-"
                l1.append("ls.names " + ftok)
                o1.append(",".join(mnames) or "-")
                l2.append("ls.needpw %d %s" % (1 if pw is not None else 0, ftok))
                o2.append("1" if v["needs_password"] else "0")
                l3.append("ls.solid " + (",".join(map(str, nums)) or "-"))
                o3.append("1" if solid else "0")
                if bool(solid) != any(n > 1 for n in nums):
                    ctx.fail("C10:solid", "archiveinfo().solid=%s but the folders hold %s members each" % (solid, nums), inp)
                if unc != total:
                    ctx.fail("C10:total_size", "archiveinfo().uncompressed=%s, members sum to %d" % (unc, total), inp)
                if blocks != len(folders):
                    ctx.fail("C10:blocks", "archiveinfo().blocks=%s, the archive has %d folders" % (blocks, len(folders)), inp)
                if size != len(data):
                    ctx.fail("C10:archive_size", "archiveinfo().size=%s, file has %d bytes" % (size, len(data)), inp)
                has_aes = any("06f10701" in f for f in ids)
                if v["needs_password"] != (has_aes or pw is not None):
                    ctx.fail("C10:needs_password", "needs_password()=%s but AES coder present=%s, password supplied=%s" % (v["needs_password"], has_aes, pw is not None), inp)
        # the same interfaces inside write and append sessions
        small = [("w/a.txt", b"alpha" * 5), ("w/b.bin", bytes(range(40))), ("w/empty", None)]
        base = arclib.write_archive([("old/x.txt", b"x" * 30), ("old/y.txt", b"y" * 9)])
        ojobs = [("w", None, small), ("a", base, small), ("a", None, small[:2])]
        for (mode, b, members), (st, val) in zip(ojobs, sandbox.pmap(_open_session_listing, ojobs, timeout=60)):
            conf = {"session": "mode %r on %s" % (mode, "an existing archive" if b else "a new file"), "calls": ["writestr(%r)" % n for n, _ in members]}
            ctx.case(key=("open-session", mode, bool(b)), nontrivial=True, sample=conf)
            if st != "ok":
                ctx.fail("C10:listing_raises", "listing inside a write session did not complete: %s" % str(val)[:200], conf)
                continue
            for step, (names, same, found) in enumerate(val):
                if not same:
                    ctx.fail("C10:names_interfaces", "inside the session the listing interfaces disagree after call %d" % step, dict(conf, names=names))
                if not all(found):
                    ctx.fail("C10:getinfo", "inside the session getinfo() does not find %r, which the listing shows (after call %d)"
                             % ([n for n, f in zip(names, found) if not f][:3], step), dict(conf, names=names))
        ctx.correspond("ls.names", l1, o1)
        ctx.correspond("ls.needpw", l2, o2)
        ctx.correspond("ls.solid", l3, o3)
    finally:
        shutil.rmtree(tmp, ignore_errors=True)


def replay(ctx, data):
    print(data.get("failure"))
    return 0
