"""C02 — directory tree round trip with metadata (writeall -> extractall)."""
import os
import re
import shutil
import stat
import tempfile

import arclib
import sandbox
import trees

ID = "C02"
RULE = ("attr stream (_make_file_info on real files/dirs/links with every sampled mode; ArchiveFile decoding vs the Lean "
        "attribute model) + time stream (ArchiveTimestamp.from_datetime/totimestamp on sampled and boundary timestamps: the "
        "rounding bounds assumed by the envelope theorem are measured with exact rationals) + exploration: generated trees "
        "(depth <=5, empty dirs, 0-byte files beside non-empty, modes 0o400..0o777 / 0o500..0o777, mtimes 1970..2100 with "
        "sub-second parts, names per the quantifier, relative links to files and directories sideways/upward-inside) "
        "archived with writeall (arcname None/given, dereference off/on, default filters, password) or pack_7zarchive and "
        "extracted with extractall (given path / cwd) or unpack_7zarchive into an empty directory; compared by "
        "lstat/readlink/read (mode bits exact, mtime within 5 us). Non-trivial = tree with >=3 entries incl. a link or an "
        "empty directory; distinct by (tree, options).")
ASSUMPTIONS = ["the sandbox runs as root: permission enforcement cannot be observed, only the bits", "os.utime granularity and umask are runtime",
               "binary64 round-to-nearest (standard model) for the timestamp envelope"]


def _roundtrip(job):
    spec, opts, tmp = job
    import py7zr
    import random
    rng = random.Random(opts["seed"])
    work = tempfile.mkdtemp(dir=tmp)
    src = os.path.join(work, "tree")
    trees.materialise(src, spec, rng)
    arc = os.path.join(work, "a.7z")
    dest = os.path.join(work, "out")
    os.makedirs(dest)
    kw = {}
    if opts["password"]:
        kw["password"] = opts["password"]
    old = os.getcwd()
    try:
        if opts["entry"] in ("shutil", "shutil-root"):
            import shutil as sh
            sh.register_archive_format("7zip", py7zr.pack_7zarchive, description="7zip archive")
            sh.register_unpack_format("7zip", [".7z"], py7zr.unpack_7zarchive)
            os.chdir(work)
            if opts["entry"] == "shutil":
                sh.make_archive(os.path.join(work, "a"), "7zip", root_dir=work, base_dir="tree")
                got_root = os.path.join(dest, "tree")
            else:
                # the tree itself is the archive root: a link to the top directory resolves to the destination itself
                sh.make_archive(os.path.join(work, "a"), "7zip", root_dir=src)
                got_root = dest
            sh.unpack_archive(arc, dest)
        elif opts["entry"] == "api-dot":
            os.chdir(src)
            with py7zr.SevenZipFile(arc, "w", dereference=opts["dereference"], **kw) as z:
                z.writeall(".")
            os.chdir(work)
            with py7zr.SevenZipFile(arc, "r", **kw) as z:
                z.extractall(dest)
            got_root = dest
        else:
            with py7zr.SevenZipFile(arc, "w", dereference=opts["dereference"], **kw) as z:
                if opts["arcname"]:
                    z.writeall(src, opts["arcname"])
                else:
                    os.chdir(work)
                    z.writeall("tree")
            with py7zr.SevenZipFile(arc, "r", **kw) as z:
                if opts["dest"] == "cwd":
                    os.chdir(dest)
                    z.extractall()
                else:
                    z.extractall(dest)
            got_root = os.path.join(dest, opts["arcname"] or "tree")
    finally:
        os.chdir(old)
    a = trees.snapshot(src)
    if opts["dereference"]:
        # each link is replaced by the content it points to
        a2 = {}
        for k, v in a.items():
            if v[0] == "link":
                p = os.path.join(src, k)
                st = os.stat(p)
                if stat.S_ISDIR(st.st_mode):
                    a2[k] = ("dir", None, stat.S_IMODE(st.st_mode), st.st_mtime_ns)
                    for dp, dn, fn in os.walk(p):
                        for n in dn + fn:
                            q = os.path.join(dp, n)
                            rel = os.path.join(k, os.path.relpath(q, p))
                            s2 = os.stat(q)
                            if stat.S_ISDIR(s2.st_mode):
                                a2[rel] = ("dir", None, stat.S_IMODE(s2.st_mode), s2.st_mtime_ns)
                            else:
                                a2[rel] = ("file", open(q, "rb").read(), stat.S_IMODE(s2.st_mode), s2.st_mtime_ns)
                else:
                    a2[k] = ("file", open(p, "rb").read(), stat.S_IMODE(st.st_mode), st.st_mtime_ns)
            else:
                a2[k] = v
        a = a2
    b = trees.snapshot(got_root) if os.path.isdir(got_root) else {}
    d = trees.diff_snapshots(a, b, mtime_tol_ns=5000)
    trees.make_writable(work)
    shutil.rmtree(work, ignore_errors=True)
    return d


def run(ctx):
    rng = ctx.rng
    ctx.lean_obligations("SevenZ.Props.C02")
    import py7zr
    import pathlib
    from fractions import Fraction
    from py7zr.helpers import ArchiveTimestamp
    tmp = tempfile.mkdtemp(prefix="verif_c02_")
    try:
        # ---- attr stream: real lstat-derived attribute words and their decoding
        l1, o1, l2, o2 = [], [], [], []
        modes = [0o400, 0o444, 0o500, 0o555, 0o600, 0o640, 0o644, 0o700, 0o711, 0o750, 0o755, 0o777, 0o4755, 0o2750, 0o1777] + [rng.randrange(0o400, 0o1000) for _ in range(20)]
        for i, m in enumerate(modes):
            for kind in ("file", "dir", "symlink"):
                p = os.path.join(tmp, "k%d_%s" % (i, kind))
                if kind == "file":
                    open(p, "wb").close()
                    os.chmod(p, m)
                elif kind == "dir":
                    os.mkdir(p)
                    os.chmod(p, m)
                else:
                    os.symlink("k0_file", p)
                info = py7zr.SevenZipFile._make_file_info(pathlib.Path(p), "n", False)
                real_mode = stat.S_IMODE(os.lstat(p).st_mode)
                l1.append("attr.enc %s %d" % (kind, real_mode))
                o1.append(str(info["attributes"]))
                af = py7zr.py7zr.ArchiveFile(0, {"attributes": info["attributes"], "emptystream": info["emptystream"]})
                k2 = "dir" if af.is_directory else ("symlink" if af.is_symlink else "file")
                l2.append("attr.dec %d" % info["attributes"])
                o2.append("%s %s" % (k2, "N" if af.posix_mode is None else af.posix_mode))
                ctx.case(key=("attr", kind, real_mode), nontrivial=True)
        for a in [0x10, 0x20, 0x420, 0x8000, 0x21, 0, 0x81ED8020, 0x41ED8010, 0xA1FF8420] + [rng.getrandbits(32) for _ in range(200)]:
            af = py7zr.py7zr.ArchiveFile(0, {"attributes": a})
            k2 = "dir" if af.is_directory else ("symlink" if af.is_symlink else "file")
            l2.append("attr.dec %d" % a)
            o2.append("%s %s" % (k2, "N" if af.posix_mode is None else af.posix_mode))
        ctx.correspond("attr.enc", l1, o1)
        ctx.correspond("attr.dec", l2, o2)
        # ---- timestamps: measure the rounding bounds the envelope theorem assumes, and the round trip itself
        A = 11644473600
        worst = Fraction(0)
        for _ in range(20000 if ctx.thorough else 4000):
            t = rng.choice([rng.uniform(0, 4102444800), float(rng.randrange(0, 4102444800)), rng.randrange(0, 4102444800) + rng.choice([0.5, 0.25, 1e-6, 0.999999, 0.1234567])])
            a = t - (-A)
            ts = ArchiveTimestamp.from_datetime(t)
            b = a * 10000000.0
            c = int(ts) / 10000000.0
            r = ts.totimestamp()
            ea = abs(Fraction(a) - (Fraction(t) + A))
            eb = abs(Fraction(b) - Fraction(a) * 10000000)
            ec = abs(Fraction(c) - Fraction(int(ts), 10000000))
            er = abs(Fraction(r) - (Fraction(c) - A))
            if ea > Fraction(1, 2 ** 20) or eb > 16 or ec > Fraction(1, 2 ** 20) or er > Fraction(1, 2 ** 22) or not (int(ts) <= Fraction(b) < int(ts) + 1):
                ctx.broken.append({"kind": "correspondence", "name": "time-envelope-hypotheses", "detail": {"t": repr(t), "ea": float(ea), "eb": float(eb), "ec": float(ec), "er": float(er)}})
                break
            err = abs(Fraction(r) - Fraction(t))
            worst = max(worst, err)
            ctx.case()
            if err > Fraction(5, 1000000):
                ctx.fail("C02:timestamp", "from_datetime/totimestamp round trip is off by %.3g s" % float(err), {"t": repr(t)})
        ctx.count("timestamp-worst-error-us", "%.3f" % (float(worst) * 1e6))
        st = ctx.streams.setdefault("time-envelope-hypotheses", {"cases": 0, "disagreements": 0})
        st["cases"] += 20000 if ctx.thorough else 4000

        # ---- tree round trips
        n = 160 if ctx.thorough else 36
        jobs, meta = [], []
        for i in range(n):
            names = "simple" if i % 3 else "quantifier"
            spec = trees.gen_tree(rng, depth=5, links=(i % 4 != 3), maxentries=rng.choice([3, 6, 10, 16]), names=names)
            opts = {"seed": rng.randrange(1 << 30), "password": (None if i % 5 else "pw"), "dereference": (i % 7 == 6),
                    "arcname": (None if i % 3 else "top/arc"), "dest": ("cwd" if i % 4 == 1 else "given"),
                    "entry": ("shutil" if i % 9 == 8 else "shutil-root" if i % 9 == 4 else "api-dot" if i % 9 in (2, 6) else "api")}
            upward = any(k == "link" and (p == "." or p.startswith("..") or os.path.normpath(os.path.join(os.path.dirname(r), p)) in ("", ".") or
                                          (r + "/").startswith(os.path.normpath(os.path.join(os.path.dirname(r), p)) + "/")) for r, k, p in spec)
            if upward:
                opts["dereference"] = False      # a dereferenced link to an ancestor is an infinite tree: outside the property
            if opts["entry"] in ("shutil", "shutil-root"):
                opts.update({"password": None, "dereference": False, "arcname": None, "dest": "given"})
            if opts["entry"] == "api-dot":
                opts.update({"arcname": None, "dest": "given"})
            if opts["entry"] in ("api-dot", "shutil-root") and any(re.match(r"^[a-zA-Z]:", r) for r, k, p in spec):
                # stored without a leading directory, a first component like 'c:' is a drive prefix to write()/writeall(),
                # which remove it by design (C16; tests/test_archive.py::test_compress_win32_absolute_arcname): such a
                # tree is archived under its directory name instead
                opts["entry"] = "api" if opts["entry"] == "api-dot" else "shutil"
            jobs.append((spec, opts, tmp))
            meta.append((spec, opts))
        # fixed shapes: links to the top of the tree from one and two levels down, every way of storing the tree
        fixed = [("pkg", "dir", 0o755), ("pkg/f.txt", "file", (b"payload", 0o644)), ("pkg/top", "link", ".."), ("pkg/lib", "dir", 0o750),
                 ("pkg/lib/top2", "link", "../.."), ("pkg/lib/up", "link", ".."), ("pkg/lib/g.bin", "file", (b"", 0o600)), ("empty", "dir", 0o700)]
        # names that extend a sibling's name, empty and non-empty, files and directories
        fixed2 = [("pkg", "dir", 0o755), ("pkg/lib", "dir", 0o750), ("pkg/lib64", "dir", 0o755), ("pkg/lib64/so.bin", "file", (b"elf", 0o644)),
                  ("pkg/lib.d", "dir", 0o700), ("v1", "dir", 0o711), ("v10", "dir", 0o755), ("v1.txt", "file", (b"one", 0o600)),
                  ("test", "dir", 0o555), ("tests", "dir", 0o755), ("tests/t.py", "file", (b"", 0o644)), ("testsuite", "file", (b"x" * 40, 0o640))]
        for entry in ("api", "api-dot", "shutil", "shutil-root"):
            for pw in (None, "pw"):
                if pw and entry.startswith("shutil"):
                    continue
                for shape in (fixed, fixed2):
                    opts = {"seed": 7, "password": pw, "dereference": False, "arcname": None, "dest": "given", "entry": entry}
                    jobs.append((shape, opts, tmp))
                    meta.append((shape, opts))
        # dereference=True over links to files and to directories (sideways and downward, never to an ancestor): the
        # entry that replaces a link carries the pointee's content, mode and modification time, not the link's own
        fixed3 = [("d", "dir", 0o755), ("d/real.txt", "file", (b"pointee" * 9, 0o640)), ("d/sub", "dir", 0o750), ("d/sub/x.bin", "file", (bytes(range(50)), 0o600)),
                  ("d/sub/y", "file", (b"", 0o644)), ("ln_file", "link", "d/real.txt"), ("ln_dir", "link", "d/sub"), ("d/ln_side", "link", "sub/x.bin"),
                  ("e", "dir", 0o700), ("e/ln_up_side", "link", "../d/sub")]
        for entry in ("api", "api-dot"):
            for pw in (None, "pw"):
                for arcname in (None, "top/arc"):
                    if entry == "api-dot" and arcname:
                        continue
                    opts = {"seed": 11 + len(jobs), "password": pw, "dereference": True, "arcname": arcname, "dest": "given", "entry": entry}
                    jobs.append((fixed3, opts, tmp))
                    meta.append((fixed3, opts))
        res = sandbox.pmap(_roundtrip, jobs, timeout=180)
        for (spec, opts), (st_, val) in zip(meta, res):
            desc = [(r, k, (len(p[0]), oct(p[1])) if k == "file" else (oct(p) if k == "dir" else p)) for r, k, p in spec]
            conf = {"tree": desc, "options": opts}
            kinds = [k for _, k, _ in spec]
            ctx.case(key=(str(desc), str(opts)), nontrivial=len(spec) >= 3 and ("link" in kinds or "dir" in kinds), sample=conf)
            ctx.count("entry", opts["entry"] + ("/deref" if opts["dereference"] else ""))
            if st_ != "ok":
                ctx.fail("C02:roundtrip_" + st_, "tree round trip did not complete: %s" % str(val)[:300], conf)
                continue
            if val:
                sig = "C02:tree_differs"
                if all(x.startswith("mtime") for x in val):
                    sig = "C02:mtime"
                elif all(x.startswith("mode") for x in val):
                    sig = "C02:mode"
                ctx.fail(sig, "extracted tree differs from the source: %s" % val[:4], dict(conf, diff=val[:8]))
    finally:
        trees.make_writable(tmp)
        shutil.rmtree(tmp, ignore_errors=True)


def replay(ctx, data):
    print(str(data.get("failure"))[:1500])
    return 0
