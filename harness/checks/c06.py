"""C06 — reader conformance: any valid 7z layout is read as the format defines it."""
import io
import os
import zlib

import arclib
import refreader
import refwriter
import sandbox
import streams_hdr

ID = "C06"
RULE = ("logical archives (files, empty files, directories, symlinks; optional times/attributes) x physical layouts emitted "
        "by the independent reference writer (1..k folders, chains copy/lzma2/lzma/bzip2/deflate/bcj+lzma2/delta+lzma2 "
        "(+aes), interleaved empty-stream entries, NumUnpackStream elided, CRCs at sub-stream/folder/none/partial, packed "
        "CRCs, packpos>0, kDummy, EmptyFile vector present/absent, partial attribute/time vectors, non-minimal NUMBERs, "
        "header raw/LZMA/AES) are first validated by the Lean strict reader, then read by py7zr (getnames/list/files "
        "metadata/extractall(factory)) and compared with the logical archive; plus every supported third-party fixture "
        "under tests/data read by both. Non-trivial = archive with >=2 members and at least one non-default layout "
        "feature; distinct by (logical archive, layout).")
ASSUMPTIONS = ["the reference writer and the Lean strict reader are my reading of docs/archive_format.rst; they validate each other and the strict reader accepts the third-party fixtures",
               "coders are listed packed-stream-first as p7zip does"]

DIR_ATTR = 0x10 | 0x8000 | ((0o040755) << 16)
FILE_ATTR = 0x20 | 0x8000 | ((0o100644) << 16)
LINK_ATTR = 0x20 | 0x400 | 0x8000 | ((0o120777) << 16)


def gen_logical(rng, n=None):
    # byte boundaries of the bit vectors (8, 16, 24 entries) matter as much as small counts
    n = n or rng.choice([1, 2, 3, 4, 5, 6, 7, 7, 8, 8, 9, 15, 16, 17, 24])
    names = arclib.gen_names(rng, n)
    members = []
    for nm in names:
        k = rng.random()
        if k < 0.55:
            kind = "file"
            data = arclib.gen_content(rng, rng.choice([1, 5, 17, 200, 3000]))
            attr = FILE_ATTR
        elif k < 0.7:
            kind, data, attr = "emptyfile", b"", FILE_ATTR
        elif k < 0.9:
            kind, data, attr = "dir", b"", DIR_ATTR
        else:
            kind, data, attr = "symlink", rng.choice(names).encode("utf-8") or b"x", LINK_ATTR
        members.append({"name": nm, "kind": kind, "data": data, "attr": attr,
                        "mtime": rng.randrange(116444736000000000, 159000000000000000), "ctime": None, "atime": None})
    return members


BIG_ROT = [-1]


def gen_layout(rng, members, feature):
    streams = [i for i, m in enumerate(members) if m["kind"] in ("file", "symlink")]
    lay = {"crc_place": "sub", "nums_omitted": True, "packcrc": False, "packpos": 0, "dummy": 0, "emptyfile_vector": True,
           "header": "raw", "password": None, "nonminimal": False}
    chains = list(refwriter.CHAINS)
    if feature == "multi-folder" or (feature in ("combo", "nonsolid") and streams):
        k = len(streams) if feature == "nonsolid" else rng.randrange(1, min(4, len(streams)) + 1) if streams else 0
        cuts = sorted(rng.sample(range(1, len(streams)), k - 1)) if k > 1 else []
        parts = [streams[a:b] for a, b in zip([0] + cuts, cuts + [len(streams)])]
        lay["folders"] = [(rng.choice(chains), p) for p in parts]
    else:
        lay["folders"] = [(rng.choice(chains), streams)] if streams else []
    if feature == "folder-crc":
        lay["crc_place"] = "folder"
        lay["folders"] = [(c, [i]) for c, p in lay["folders"] for i in p]    # one stream per folder
    elif feature == "folder-crc-solid":
        lay["crc_place"] = "folder"
    elif feature == "folder-crc-mixed":
        # single-stream folders (their CRC is the folder's, they have no entry in the SubStreamsInfo digest vector) BEFORE
        # and between folders with several streams (whose digests are in that vector)
        lay["crc_place"] = "folder"
        if len(streams) >= 3:
            cut = rng.randrange(2, len(streams))
            lay["folders"] = [(rng.choice(chains), [streams[0]]), (rng.choice(chains), streams[1:cut])] + \
                ([(rng.choice(chains), [streams[cut]])] if cut < len(streams) else []) + \
                ([(rng.choice(chains), streams[cut + 1:])] if cut + 1 < len(streams) else [])
    elif feature == "no-crc":
        lay["crc_place"] = "none"
    elif feature == "partial-crc":
        lay["crc_place"] = "partial"
    elif feature == "nums-explicit":
        lay["nums_omitted"] = False
        lay["folders"] = [(c, [i]) for c, p in lay["folders"] for i in p]
    elif feature == "no-substreams":
        lay["crc_place"] = "none"
        lay["folders"] = [(c, [i]) for c, p in lay["folders"] for i in p]
    elif feature == "packcrc":
        lay["packcrc"] = True
    elif feature == "packpos":
        lay["packpos"] = rng.choice([1, 7, 300])
    elif feature == "dummy":
        lay["dummy"] = rng.choice([1, 2, 3, 9])
    elif feature == "no-emptyfile-vector":
        lay["emptyfile_vector"] = False
    elif feature == "header-lzma":
        lay["header"] = "lzma"
    elif feature == "header-aes":
        lay["header"] = "aes"
        lay["password"] = "pw"
    elif feature == "aes":
        lay["password"] = "pw"
        lay["folders"] = [(c + "+aes", p) for c, p in lay["folders"]]
    elif feature == "nonminimal":
        lay["nonminimal"] = True
    elif feature == "big-solid":
        BIG_ROT[0] += 1
        lay["folders"] = [(["copy", "deflate", "deflate64", "lzma2", "bzip2"][BIG_ROT[0] % 5], streams)] if streams else []
    elif feature == "combo":
        # every orthogonal layout axis drawn independently: a reader that handles each feature alone can still
        # mishandle two together (several folders AND data away from offset 0, folder CRCs AND padding, ...)
        lay["packcrc"] = rng.random() < 0.5
        lay["packpos"] = rng.choice([0, 1, 7, 53, 300])
        lay["dummy"] = rng.choice([0, 0, 2, 5])
        lay["header"] = rng.choice(["raw", "lzma"])
        lay["crc_place"] = rng.choice(["sub", "sub", "none", "partial", "folder"])
        lay["nonminimal"] = rng.random() < 0.2
        lay["emptyfile_vector"] = rng.random() < 0.8
    return lay


def tweak_members(rng, members, feature):
    ms = [dict(m) for m in members]
    if feature == "partial-mtime":
        for m in ms:
            if rng.random() < 0.5:
                m["mtime"] = None
    elif feature == "no-mtime":
        for m in ms:
            m["mtime"] = None
    elif feature == "partial-attr":
        for m in ms:
            if rng.random() < 0.5 and m["kind"] != "symlink":
                m["attr"] = None
    elif feature == "no-attr":
        for m in ms:
            if m["kind"] != "symlink":
                m["attr"] = None
    elif feature == "ctime-atime":
        for m in ms:
            m["ctime"] = rng.randrange(116444736000000000, 159000000000000000)
            m["atime"] = rng.randrange(116444736000000000, 159000000000000000) if rng.random() < 0.5 else None
    elif feature == "big-solid":
        # a solid block longer than one 1 MiB read block: members start in one decoded chunk and end in the next
        files = [m for m in ms if m["kind"] == "file"]
        while len(files) < 4:
            nm = "big%d.bin" % len(files)
            m = {"name": nm, "kind": "file", "data": b"", "attr": FILE_ATTR, "mtime": 130000000000000000, "ctime": None, "atime": None}
            ms.append(m)
            files.append(m)
        for m, n in zip(files, [600000, 600000, 300000, 500000, 37, 70000, 1]):
            m["data"] = rng.randbytes(n // 2) + bytes(n - n // 2)
    elif feature == "combo":
        sub = rng.choice(["partial-mtime", "partial-attr", "ctime-atime", "win-attr", None, None])
        return tweak_members(rng, ms, sub) if sub else ms
    elif feature == "win-attr":
        for m in ms:
            if m["kind"] in ("file", "emptyfile"):
                m["attr"] = 0x20
            elif m["kind"] == "dir":
                m["attr"] = 0x10
    return ms


FEATURES = ["plain", "multi-folder", "nonsolid", "folder-crc", "folder-crc-solid", "folder-crc-mixed", "no-crc", "partial-crc", "nums-explicit",
            "no-substreams", "packcrc", "packpos", "dummy", "no-emptyfile-vector", "header-lzma", "header-aes", "aes", "nonminimal",
            "partial-mtime", "no-mtime", "partial-attr", "no-attr", "ctime-atime", "win-attr", "combo", "big-solid"]


def _py7zr_read(job):
    data, password = job
    import py7zr
    out = {}
    kw = {"password": password} if password else {}
    with py7zr.SevenZipFile(io.BytesIO(data), "r", **kw) as z:
        out["names"] = z.getnames()
        out["list"] = [(f.filename, f.uncompressed, f.is_directory, f.crc32) for f in z.list()]
        fs_ = z.header.main_streams.unpackinfo.folders if z.header.main_streams is not None else []
        offs, slots = {}, []
        for f in z.files:
            if f.emptystream or f.folder is None:
                slots.append(None)
            else:
                k = fs_.index(f.folder)
                slots.append((k, offs.get(k, 0), f.uncompressed, f.crc32))
                offs[k] = offs.get(k, 0) + f.uncompressed
        out["slots"] = slots
        out["meta"] = [(f.filename, f.emptystream, f.is_directory, f.is_symlink, (int(f.lastwritetime) if f.lastwritetime is not None else None),
                        f._file_info.get("attributes")) for f in z.files]
    with py7zr.SevenZipFile(io.BytesIO(data), "r", **kw) as z:
        fac = py7zr.io.BytesIOFactory(1 << 26)
        z.extractall(factory=fac)
        got = {}
        for n, p in fac.products.items():
            p.seek(0)
            got[n] = p.read()
        out["bytes"] = got
    # the same archive through a stream that returns SHORT reads (as a multi-volume file does at every volume
    # boundary): what a read() returns is never more than a prime number of bytes
    if len(data) > 600:
        class ShortIO(io.BytesIO):
            def read(self, n=-1):
                return super().read(251 if n is None or n < 0 or n > 251 else n)
        try:
            with py7zr.SevenZipFile(ShortIO(data), "r", **kw) as z:
                fac = py7zr.io.BytesIOFactory(1 << 26)
                z.extractall(factory=fac)
                got2 = {}
                for n, p in fac.products.items():
                    p.seek(0)
                    got2[n] = p.read()
            out["short_reads"] = "same" if got2 == got else "differs: " + ",".join(sorted(n for n in got if got2.get(n) != got[n]))[:200]
        except Exception as e:  # noqa
            out["short_reads"] = "raised " + type(e).__name__
    # extraction into a directory: the post-pass (times, modes) runs only here
    import tempfile, shutil, stat as st_
    tmp = tempfile.mkdtemp(prefix="verif_c06x_")
    try:
        arc = os.path.join(tmp, "a.7z")
        with open(arc, "wb") as f:
            f.write(data)
        dest = os.path.join(tmp, "out")
        try:
            with py7zr.SevenZipFile(arc, "r", **kw) as z:
                z.extractall(dest)
            tree = {}
            for dp, dn, fn in os.walk(dest):
                for n in dn + fn:
                    pth = os.path.join(dp, n)
                    s_ = os.lstat(pth)
                    rel = os.path.relpath(pth, dest)
                    if st_.S_ISLNK(s_.st_mode):
                        tree[rel] = ("link", os.readlink(pth), None)
                    elif st_.S_ISDIR(s_.st_mode):
                        tree[rel] = ("dir", None, s_.st_mtime_ns)
                    else:
                        tree[rel] = ("file", open(pth, "rb").read(), s_.st_mtime_ns)
            out["tree"] = tree
        except Exception as e:  # noqa
            out["tree_error"] = "%s: %s" % (type(e).__name__, str(e)[:200])
    finally:
        for dp, dn, fn in os.walk(tmp):
            for n in dn:
                try:
                    os.chmod(os.path.join(dp, n), 0o700)
                except OSError:
                    pass
        shutil.rmtree(tmp, ignore_errors=True)
    return out


def compare(members, got):
    """-> list of difference strings between the logical archive and what py7zr reports."""
    diffs = []
    want_names = [m["name"] for m in members]
    # a member stored without a name gets a generated one; '\\' is normalised to '/'
    norm = [(g if w is None else w.replace("\\", "/")) for g, w in zip(got["names"], want_names)]
    if got["names"] != norm or len(got["names"]) != len(want_names):
        return ["names %r != %r" % (got["names"][:5], want_names[:5])]
    if got.get("short_reads", "same") != "same":
        diffs.append("through a stream with short reads the extraction " + got["short_reads"])
    seen = {}
    for m, li, me in zip(members, got["list"], got["meta"]):
        nm = li[0]
        key = nm.lstrip("/")          # extraction strips leading separators
        if nm in seen:                # later members of the same name are delivered as name_0, name_1, ...
            key = key + "_%d" % (seen[nm] - 1)
        seen[nm] = seen.get(nm, 0) + 1
        is_dir = m["kind"] == "dir"
        if li[2] != is_dir:
            diffs.append("kind:%s listed is_directory=%s" % (m["kind"], li[2]))
        if m["kind"] in ("file", "symlink"):
            if li[1] != len(m["data"]):
                diffs.append("size %r: %s != %d" % (nm, li[1], len(m["data"])))
            if got["bytes"].get(key) != m["data"]:
                diffs.append("bytes %r differ" % nm)
        elif m["kind"] == "emptyfile":
            if got["bytes"].get(key) not in (b"",):
                diffs.append("emptyfile %r delivered as %r" % (nm, got["bytes"].get(key)))
        if me[4] != m["mtime"]:
            diffs.append("mtime %r: %s != %s" % (nm, me[4], m["mtime"]))
        if me[5] != m["attr"]:
            diffs.append("attr %r: %s != %s" % (nm, me[5], m["attr"]))
    # extraction into a directory (skipped when a link target is absolute or climbs: refusing those is policy, C03)
    risky = any(m["kind"] == "symlink" and (m["data"].startswith(b"/") or b".." in m["data"].split(b"/")) for m in members)
    dup = len(set(want_names)) != len(want_names) or any(w is None for w in want_names)
    if not dup:
        # a file system cannot hold both 'm' (a file or link) and 'm/x': such member lists are valid archives but not trees
        keys = {os.path.normpath(w.replace("\\", "/").lstrip("/")): m["kind"] for w, m in zip(want_names, members)}
        for k in list(keys):
            parts = k.split("/")
            for i in range(1, len(parts)):
                anc = "/".join(parts[:i])
                if anc in keys and keys[anc] != "dir":
                    dup = True
        if len(keys) != len(want_names):
            dup = True
    if not risky and not dup:
        if "tree_error" in got:
            diffs.append("extractall(path) raised " + got["tree_error"])
        elif "tree" in got:
            tree = got["tree"]
            for m in members:
                key = os.path.normpath(m["name"].replace("\\", "/").lstrip("/"))
                ent = tree.get(key)
                if m["kind"] == "file" and (m["attr"] is None or not (m["attr"] & 0x400)):
                    if ent is None or ent[0] != "file" or ent[1] != m["data"]:
                        diffs.append("tree: file %r not extracted with its bytes (%s)" % (m["name"], None if ent is None else ent[0]))
                    elif m["mtime"] is not None and abs(ent[2] - (m["mtime"] - 116444736000000000) * 100) > 10000:
                        diffs.append("tree: mtime of %r off by %d ns" % (m["name"], ent[2] - (m["mtime"] - 116444736000000000) * 100))
                elif m["kind"] == "dir" and m["attr"] is not None:
                    if ent is None or ent[0] != "dir":
                        diffs.append("tree: directory %r not created" % m["name"])
    return diffs


def assignment(ctx, ref, val, cls, lines, impl, classes, inp):
    """py7zr's member -> (folder, offset, size, digest) map vs (a) the model's cursor on the same header values
    (correspondence of Impl.assign) and (b) the format's assignment computed by the strict reader (the property)."""
    streams = ref.get("streams")
    if not streams:
        return
    flags = "".join("1" if m["es"] else "0" for m in ref["members"]) or "-"

    def nats(xs):
        return ",".join(str(x) for x in xs) or "-"
    lines.append("asg.run %s %s %s %s" % (flags, nats(streams["nums"]), nats(streams["sizes"]), ",".join("N" if c is None else str(c) for c in streams["crcs"]) or "-"))
    got = val["slots"]
    impl.append(",".join("-" if s is None else "%d:%d:%d:%s" % (s[0], s[1], s[2], "N" if s[3] is None else s[3]) for s in got) or "empty")
    classes.append(cls)
    want = [None if m["folder"] is None else (m["folder"], m["offset"], m["size"], m["crc"]) for m in ref["members"]]
    if [None if s is None else tuple(s) for s in got] != want:
        k = next((i for i, (a, b) in enumerate(zip(got, want)) if (None if a is None else tuple(a)) != b), None)
        ctx.fail("C06:assignment", "member %s is given sub-stream %s, the format assigns %s" % (k, got[k] if k is not None else got, want[k] if k is not None else want), inp)


def run(ctx):
    rng = ctx.rng
    ctx.lean_obligations("SevenZ.Props.C06")
    streams_hdr.run(ctx, n_write=(200 if ctx.thorough else 50), n_mut=(500 if ctx.thorough else 100), writer_like=False, fail_prefix="C06")
    cases = []
    per = 12 if ctx.thorough else 3
    for feat in FEATURES:
        for _ in range(per * 8 if feat == "combo" else per):
            members = tweak_members(rng, gen_logical(rng), feat)
            lay = gen_layout(rng, members, feat)
            if not lay["emptyfile_vector"]:
                # without an EmptyFile vector an entry without a stream and without attributes IS a directory as far as the
                # format can tell: the logical archive this layout expresses says so too
                for m in members:
                    if m["kind"] == "emptyfile" and m["attr"] is None:
                        m["kind"] = "dir"
            try:
                data = refwriter.build(members, lay, rng)
            except Exception as e:  # noqa
                ctx.broken.append({"kind": "correspondence", "name": "refwriter", "detail": "%s: %r" % (feat, e)})
                continue
            cases.append((feat, members, lay, data))
    # 1. the reference writer's output must satisfy the Lean strict reader and decode to the logical archive
    refs = refreader.read_many(ctx, [c[3] for c in cases], [c[2]["password"] for c in cases])
    good, good_refs = [], []
    asg_lines, asg_impl, asg_cls = [], [], []
    for (feat, members, lay, data), r in zip(cases, refs):
        ok = r["ok"] and [m["name"] for m in r["members"]] == [m["name"] for m in members] and \
            all(rm["kind"] == m["kind"] or (m["kind"] == "emptyfile" and not lay["emptyfile_vector"]) or (m["attr"] is None and m["kind"] == "symlink")
                for rm, m in zip(r["members"], members)) and \
            all((rm["data"] or b"") == m["data"] for rm, m in zip(r["members"], members) if m["kind"] in ("file", "symlink"))
        if not ok:
            ctx.broken.append({"kind": "correspondence", "name": "refwriter-vs-strict-reader",
                               "detail": {"feature": feat, "error": r.get("error"), "archive_hex": data.hex()[:4000]}})
            continue
        good.append((feat, members, lay, data))
        good_refs.append(r)
    st = ctx.streams.setdefault("refwriter-vs-strict-reader", {"cases": 0, "disagreements": 0})
    st["cases"] += len(cases)
    st["disagreements"] += len(cases) - len(good)
    # 2. py7zr reads the same archives
    res = sandbox.pmap(_py7zr_read, [(c[3], c[2]["password"]) for c in good], timeout=60)
    for (feat, members, lay, data), (stt, val), r in zip(good, res, good_refs):
        if stt == "ok":
            assignment(ctx, r, val, feat, asg_lines, asg_impl, asg_cls, {"feature": feat, "archive_hex": data.hex() if len(data) < 6000 else None})
        key = (feat, zlib.crc32(data))
        ctx.case(key=key, nontrivial=len(members) >= 2 and feat != "plain",
                 sample={"feature": feat, "members": [(m["name"][:20], m["kind"], len(m["data"])) for m in members][:4], "folders": [(c, len(p)) for c, p in lay["folders"]]})
        inp = {"feature": feat, "layout": {k: (v if k != "folders" else [(c, p) for c, p in v]) for k, v in lay.items()},
               "members": [(m["name"], m["kind"], len(m["data"]), m["mtime"], m["attr"]) for m in members], "archive_hex": data.hex() if len(data) < 6000 else None}
        if stt != "ok":
            ctx.count("outcome", feat + "/" + (val[0] if stt == "exc" else stt))
            ctx.fail("C06:" + feat, "py7zr fails on a valid archive (layout feature %s): %s" % (feat, (val[0] + ": " + val[1]) if stt == "exc" else stt), inp)
            continue
        d = compare(members, val)
        if feat == "no-emptyfile-vector":
            d = [x for x in d if not x.startswith("kind:emptyfile")]     # without the vector an empty file *is* a directory-or-file by attribute
        ctx.count("outcome", feat + "/" + ("ok" if not d else "diff"))
        if d:
            inp["diff"] = d[:5]
            if feat in ("partial-attr", "no-attr") and all(x.startswith("kind:") or x.startswith("emptyfile") for x in d):
                ctx.fail("C06:kind_without_attributes", "an empty-stream entry without attributes is a directory by the EmptyFile vector, py7zr treats it as a file: %s" % d[0], inp)
                continue
            ctx.fail("C06:" + feat, "py7zr reads a valid archive differently from the format (layout feature %s): %s" % (feat, d[0]), inp)

    # 3. third-party fixtures: py7zr vs the reference reader
    fx = []
    for fn in sorted(os.listdir("/repo/tests/data")):
        if fn.endswith(".7z"):
            pw = "hello" if "filename_enc" in fn else ("secret" if "encrypt" in fn else None)
            fx.append((fn, open(os.path.join("/repo/tests/data", fn), "rb").read(), pw))
    refs = refreader.read_many(ctx, [f[1] for f in fx], [f[2] for f in fx])
    usable = [(f, r) for f, r in zip(fx, refs) if r["ok"]]
    res = sandbox.pmap(_py7zr_read, [(f[1], f[2]) for f, r in usable], timeout=120)
    for ((fn, data, pw), r), (stt, val) in zip(usable, res):
        ctx.case(key=("fixture", fn), nontrivial=True)
        members = [{"name": m["name"], "kind": m["kind"], "data": m["data"] or b"", "mtime": m["mtime"], "attr": m["attr"]} for m in r["members"]]
        if stt != "ok":
            ctx.fail("C06:fixture:" + fn, "py7zr fails on third-party fixture %s which the reference reader decodes: %s" % (fn, str(val)[:200]), {"fixture": fn})
            continue
        assignment(ctx, r, val, "fixture", asg_lines, asg_impl, asg_cls, {"fixture": fn})
        d = compare(members, val)
        d = [x for x in d if not x.startswith("kind:emptyfile")]
        ctx.count("fixtures", "ok" if not d else "diff")
        if d:
            ctx.fail("C06:fixture:" + fn, "py7zr and the reference reader disagree on fixture %s: %s" % (fn, d[0]), {"fixture": fn, "diff": d[:5]})
    ctx.count("fixtures", "reference-reader-cannot-decode", len(fx) - len(usable))
    ctx.correspond("asg.run", asg_lines, asg_impl, asg_cls)


def replay(ctx, data):
    print(data.get("failure"))
    return 0
