"""C18 — progress callbacks give a complete, well-ordered account."""
import io
import itertools
import os
import shutil
import tempfile
import threading
import time

import arclib
import sandbox
import schedlib
import checks.c09 as c09

ID = "C18"
RULE = ("prog stream: the callback invocations recorded during real extractions, attributed to their worker, replayed "
        "through the Lean event model as a schedule and compared token by token; upd stream: the per-iteration byte counts "
        "of a slow multi-block member vs the model's update accounting + exploration: archives of C09 (solid, multi-folder, "
        "directories and empty files, reference-written) and C13 shapes x extractall / extract(T) over all subsets (small "
        "archives) or sampled subsets x opened by path (parallel workers) and from a stream x output to a scheduler-gated "
        "WriterFactory (sampled worker interleavings) or a directory x handler behaviours {instantaneous, 2/20/60 ms per "
        "event, reporter held back until all writes are done, reporter held back until close() is entered, worker write "
        "waiting for its own start event to be delivered}; checks: pre first / post last / exactly one of each; one start "
        "then one end per processed member, end bytes = size; updates sum = bytes of delivered members; close() returns "
        "normally with every event delivered and none in the 1.3 s after. Non-trivial = >=2 workers or skipped members "
        "with a non-instantaneous handler or an enforced interleaving; distinct by (archive, targets, open mode, output, handler, schedule).")
ASSUMPTIONS = ["wall-clock dependent behaviour (the 1 s periodic update) is exercised with real sleeps; 'none after close' is observed for 1.3 s",
               "queue.Queue is FIFO and thread-safe (parameter of the model)"]


class Gate:
    def __init__(self):
        self.cv = threading.Condition()
        self.names = set()
        self.unenforced = 0

    def set(self, name):
        with self.cv:
            self.names.add(name)
            self.cv.notify_all()

    def wait(self, name, timeout=3.0):
        with self.cv:
            end = time.time() + timeout
            while name not in self.names:
                rem = end - time.time()
                if rem <= 0:
                    self.unenforced += 1
                    return False
                self.cv.wait(rem)
            return True


def _session(job):
    import py7zr
    from py7zr.callbacks import ExtractCallback
    os.chdir(job["cwd"])
    gate = Gate()
    handler = job["handler"]
    events = []
    lock = threading.Lock()

    class Rec(ExtractCallback):
        def _ev(self, kind, *a):
            first = False
            with lock:
                first = not events
            if first and handler["hold"] == "writes-done":
                gate.wait("writes-done")
            elif first and handler["hold"] == "closing":
                gate.wait("closing")
            if handler["delay"]:
                time.sleep(handler["delay"])
            with lock:
                events.append((kind,) + tuple(a) + (threading.get_ident(), time.time()))
            if kind == "s":
                gate.set("cb:s:" + a[0])

        def report_start_preparation(self):
            self._ev("pre")

        def report_start(self, processing_file_path, processing_bytes):
            self._ev("s", processing_file_path, processing_bytes)

        def report_update(self, decompressed_bytes):
            self._ev("u", decompressed_bytes)

        def report_end(self, processing_file_path, wrote_bytes):
            self._ev("e", processing_file_path, wrote_bytes)

        def report_warning(self, message):
            self._ev("w", message)

        def report_postprocess(self):
            self._ev("post")

    order = job.get("order")
    sched = schedlib.Sched(order, serial_exit=False) if order is not None else None
    total_writes = job["n_writes"]

    fac = None
    dest = None
    if job["output"] == "factory":
        fac = schedlib.SchedFactory(sched, delays=job.get("sink_delays"))
        orig_create = fac.create
        written = [0]

        def create(filename):
            io_ = orig_create(filename)
            ow = io_.write

            def w(s):
                if handler["hold"] == "own-start":
                    gate.wait("cb:s:" + schedlib.SchedFactory.strip(filename))
                r = ow(s)
                with lock:
                    written[0] += 1
                    if written[0] >= total_writes:
                        gate.set("writes-done")
                return r
            io_.write = w
            return io_
        fac.create = create
    else:
        dest = tempfile.mkdtemp(dir=job["cwd"])
        gate.set("writes-done")
    cb = Rec()
    raised = None
    close_exc = None
    src = job["path"] if job["by"] == "path" else open(job["path"], "rb")
    z = py7zr.SevenZipFile(src, "r")
    try:
        kw = {"callback": cb}
        if fac is not None:
            kw["factory"] = fac
        else:
            kw["path"] = dest
        if job["targets"] is None:
            z.extractall(**kw)
        else:
            z.extract(targets=job["targets"], recursive=job["recursive"], **kw)
    except Exception as e:  # noqa
        raised = type(e).__name__ + ": " + str(e)[:200]
    gate.set("writes-done")
    gate.set("closing")
    t0 = time.time()
    try:
        z.close()
    except Exception as e:  # noqa
        close_exc = type(e).__name__ + ": " + str(e)[:200]
    t_close = time.time() - t0
    with lock:
        n_at_close = len(events)
    time.sleep(1.3)
    with lock:
        n_after = len(events)
        evs = [e[:-2] for e in events]
        tids = sorted({e[-2] for e in events})
    if job["by"] != "path":
        src.close()
    if dest:
        shutil.rmtree(dest, ignore_errors=True)
    iters = {}
    if fac is not None:
        iters = {n: list(getattr(p, "sizes", [])) for n, p in fac.products.items()}
    return {"events": evs, "n_at_close": n_at_close, "n_after": n_after, "close_exc": close_exc, "raised": raised, "t_close": t_close,
            "reporter_threads": len(tids), "unenforced": gate.unenforced + (0 if sched is None or sched.enforced else 1), "iters": iters}


def _repeat_session(job):
    """several extractions with a callback on ONE read-mode object (reset() in between), then close() under a
    watchdog: every extraction's callback must get a complete account of its own, and close() must return"""
    path, reps, output, by, delay = job[:5]
    quiet = job[5] if len(job) > 5 else ()      # what precedes each callback extraction: "plain" (an extraction without callback), "testzip", "test"
    import py7zr
    from py7zr.callbacks import ExtractCallback
    tmp = tempfile.mkdtemp(prefix="verif_c18r_")

    class Rec(ExtractCallback):
        def __init__(self):
            self.ev = []

        def report_start_preparation(self):
            self.ev.append(("pre",))

        def report_start(self, p, b):
            if delay:
                time.sleep(delay)
            self.ev.append(("s", p))

        def report_update(self, b):
            self.ev.append(("u", b))

        def report_end(self, p, b):
            self.ev.append(("e", p))

        def report_warning(self, m):
            self.ev.append(("w", m))

        def report_postprocess(self):
            self.ev.append(("post",))

    src = path if by == "path" else open(path, "rb")
    z = py7zr.SevenZipFile(src, "r")
    cbs = []
    raised = None
    try:
        for k in range(reps):
            cb = Rec()
            cbs.append(cb)
            if k:
                z.reset()
            pre = quiet[k] if k < len(quiet) else None
            if pre == "plain":
                z.extractall(factory=py7zr.io.BytesIOFactory(1 << 24))
                z.reset()
            elif pre == "testzip":
                z.testzip()
                z.reset()
            elif pre == "test":
                z.test()
            if output == "factory":
                z.extractall(factory=py7zr.io.BytesIOFactory(1 << 24), callback=cb)
            else:
                z.extractall(os.path.join(tmp, "o%d" % k), callback=cb)
    except Exception as e:  # noqa
        raised = type(e).__name__
    t = threading.Thread(target=z.close, daemon=True)
    t.start()
    t.join(10)
    closed = not t.is_alive()
    counts = [len(c.ev) for c in cbs]
    time.sleep(0.3)
    late = [len(c.ev) - n for c, n in zip(cbs, counts)]
    if by != "path":
        src.close()
    shutil.rmtree(tmp, ignore_errors=True)
    out = []
    for c in cbs:
        kinds = [e[0] for e in c.ev]
        starts = [e[1] for e in c.ev if e[0] == "s"]
        ends = [e[1] for e in c.ev if e[0] == "e"]
        out.append({"n": len(c.ev), "pre_first": bool(kinds) and kinds[0] == "pre", "post_last": bool(kinds) and kinds[-1] == "post",
                    "pre": kinds.count("pre"), "post": kinds.count("post"), "paired": sorted(starts) == sorted(ends), "starts": len(starts)})
    return {"closed": closed, "raised": raised, "late": late, "cbs": out}


def _link_progress(job):
    """an archive with symbolic-link members extracted to a directory with a callback: a link's target text is decoded
    like any member's bytes and is accounted for like them"""
    tmp, targets = job
    import py7zr
    from py7zr.callbacks import ExtractCallback
    d = tempfile.mkdtemp(prefix="verif_c18l_", dir=tmp)
    src = os.path.join(d, "src")
    os.makedirs(os.path.join(src, "sub"))
    open(os.path.join(src, "a.txt"), "wb").write(b"A" * 700)
    open(os.path.join(src, "sub", "b.bin"), "wb").write(b"B" * 1300)
    os.symlink("a.txt", os.path.join(src, "ln_a"))
    os.symlink("../a.txt", os.path.join(src, "sub", "ln_up"))
    os.symlink("sub", os.path.join(src, "ln_dir"))
    arc = os.path.join(d, "l.7z")
    with py7zr.SevenZipFile(arc, "w") as z:
        z.writeall(src, "t")

    class Rec(ExtractCallback):
        def __init__(self):
            self.ev = []

        def report_start_preparation(self):
            self.ev.append(("pre",))

        def report_start(self, p, b):
            self.ev.append(("s", p, b))

        def report_update(self, b):
            self.ev.append(("u", b))

        def report_end(self, p, b):
            self.ev.append(("e", p, b))

        def report_warning(self, m):
            self.ev.append(("w", m))

        def report_postprocess(self):
            self.ev.append(("post",))
    cb = Rec()
    with py7zr.SevenZipFile(arc, "r") as z:
        sizes = {f.filename: f.uncompressed for f in z.list() if not f.is_directory}
        if targets is None:
            z.extractall(os.path.join(d, "out"), callback=cb)
        else:
            z.extract(os.path.join(d, "out"), targets=targets, callback=cb)
    shutil.rmtree(d, ignore_errors=True)
    delivered = [n for n in sizes if targets is None or n in targets]
    return {"update_sum": sum(int(e[1]) for e in cb.ev if e[0] == "u"), "want": sum(sizes[n] for n in delivered),
            "starts": sorted(e[1] for e in cb.ev if e[0] == "s"), "ends": sorted(e[1] for e in cb.ev if e[0] == "e"), "delivered": sorted(delivered),
            "first": cb.ev[0][0] if cb.ev else None, "last": cb.ev[-1][0] if cb.ev else None}


def select(files, targets, recursive):
    if targets is None:
        return [True] * len(files)
    norm = [t[:-1] if t.endswith("/") else t for t in targets]
    return [(n in norm) or (recursive and any(n.startswith(t) for t in norm)) for n, _, _ in files]


def _layout(path):
    """which members are empty-stream entries and which folder holds each of the others (py7zr's parse of the header,
    itself checked against the specification reader by C06)"""
    import py7zr
    with py7zr.SevenZipFile(path, "r") as z:
        fs = z.header.main_streams.unpackinfo.folders if z.header.main_streams is not None else []
        return {"numfolders": len(fs), "members": [(f.filename, bool(f.emptystream), None if f.folder is None else fs.index(f.folder)) for f in z.files]}


def plan(arc, targets, recursive, parallel):
    """-> workers: list of lists of (id, size, delivered) in the order the implementation walks them"""
    files = arc["files"]
    lay = arc["layout"]
    sel = select(files, targets, recursive)
    nf = lay["numfolders"]
    empt = [i for i, (n, e, fo) in enumerate(lay["members"]) if e]
    fol = [[i for i, (n, e, fo) in enumerate(lay["members"]) if not e and fo == k] for k in range(nf)]

    def mem(i):
        size = len(files[i][2]) if files[i][1] == "file" else 0
        return (i, size, bool(sel[i] and not lay["members"][i][1]))
    if nf == 1:
        return [[mem(i) for i in range(len(files))]]
    if nf == 0:
        return [[mem(i) for i in empt]]
    workers = [[mem(i) for i in empt]]
    for f in fol:
        if any(sel[i] for i in f):
            workers.append([mem(i) for i in f])
    return workers


def attribute(workers, events, name_to_id):
    """observed events -> (tokens, schedule of worker indices, chunks per member id) ; None if not attributable"""
    owner = {}
    for wi, ms in enumerate(workers):
        for (i, size, d) in ms:
            owner[i] = wi
    toks, sched = [], []
    open_rem = {}      # member id -> remaining bytes
    chunks = {}
    sizes = {i: size for ms in workers for (i, size, d) in ms}
    ok = True
    for ev in events:
        k = ev[0]
        if k == "pre" or k == "post":
            toks.append(k)
            continue
        if k == "s":
            i = name_to_id.get(ev[1])
            toks.append("s%s" % (i if i is not None else "?" + ev[1]))
            if i in owner:
                sched.append(owner[i])
                open_rem[i] = sizes[i]
            else:
                ok = False
        elif k == "e":
            i = name_to_id.get(ev[1])
            toks.append("e%s:%s" % (i if i is not None else "?" + ev[1], ev[2]))
            if i in owner:
                sched.append(owner[i])
                open_rem.pop(i, None)
            else:
                ok = False
        elif k == "u":
            b = int(ev[1])
            toks.append("u%d" % b)
            cand = [i for i, r in open_rem.items() if r == b] or [i for i, r in open_rem.items() if r >= b]
            if cand:
                i = cand[0]
                open_rem[i] -= b
                chunks.setdefault(i, []).append(b)
                sched.append(owner[i])
            else:
                ok = False
        else:
            toks.append("%s?" % k)
            ok = False
    return toks, sched, chunks, ok


def model_line(workers, sched, chunks):
    ws = []
    for ms in workers:
        parts = []
        for (i, size, d) in ms:
            cs = chunks.get(i)
            if d and size > 0:
                if not cs or sum(cs) != size:
                    cs = [size]      # the model insists that a delivered member's updates add up to its size
            else:
                cs = []
            parts.append("%d:%d:%d:%s" % (i, size, 1 if (d and size > 0) else 0, "+".join(map(str, cs)) or "-"))
        ws.append(",".join(parts) or "-")
    return "prog.run %s %s" % (";".join(ws), ",".join(map(str, sched)) or "-")


HANDLERS = [
    {"label": "instant", "delay": 0.0, "hold": None},
    {"label": "2ms", "delay": 0.002, "hold": None},
    {"label": "20ms", "delay": 0.02, "hold": None},
    {"label": "60ms", "delay": 0.06, "hold": None},
    {"label": "held-until-writes-done", "delay": 0.0, "hold": "writes-done"},
    {"label": "held-until-close", "delay": 0.0, "hold": "closing"},
    {"label": "held-until-close+20ms", "delay": 0.02, "hold": "closing"},
    {"label": "write-waits-own-start", "delay": 0.001, "hold": "own-start"},
]


def run(ctx):
    rng = ctx.rng
    ctx.lean_obligations("SevenZ.Props.C18")
    tmp = tempfile.mkdtemp(prefix="verif_c18_")
    try:
        arcs = c09.build_archives(rng, tmp, ctx.thorough)
        for ai, arc in enumerate(arcs):
            arc["path"] = os.path.join(tmp, "c09_%d.7z" % ai)
            open(arc["path"], "wb").write(arc["data"])
        # C13-style shapes
        for si, shape in enumerate([[2, 1], [2, 2, 2], [1, 3, 2, 1]] if not ctx.thorough else [[2, 1], [2, 2, 2], [1, 3, 2, 1], [3, 3], [1, 1, 1, 1]]):
            path = os.path.join(tmp, "shape%d.7z" % si)
            folders, extra = schedlib.build_multifolder(path, rng, shape, [[{"id": arclib.FILTER_COPY}], [{"id": arclib.FILTER_LZMA2, "preset": 1}]], extras=True)
            files, fidx = [], []
            for fi, mem in enumerate(folders):
                idx = []
                for j, (n, d) in enumerate(mem):
                    idx.append(len(files))
                    files.append((n, "file", d))
                    if fi == 0 and j == len(mem) - 1:
                        for (en, ed) in extra:
                            files.append((en, "file", ed))
                fidx.append(idx)
            arcs.append({"label": "shape%s" % shape, "files": files, "folders": fidx, "path": path})
        # one archive with a member of several decode iterations, extracted into a slow sink (periodic updates)
        big = os.path.join(tmp, "big.7z")
        import py7zr
        bigdata = rng.randbytes(1 << 16) * 72 + b"tail"           # ~4.5 MiB
        with py7zr.SevenZipFile(big, "w", filters=[{"id": arclib.FILTER_COPY}]) as z:
            z.writestr(b"small one", "a.txt")
            z.writestr(bigdata, "big.bin")
            z.writestr(b"small two!", "z.txt")
        arcs.append({"label": "big-slow-sink", "files": [("a.txt", "file", b"small one"), ("big.bin", "file", bigdata), ("z.txt", "file", b"small two!")],
                     "folders": [[0, 1, 2]], "path": big, "slow": {"big.bin": 0.42}})

        lays = sandbox.pmap(_layout, [a["path"] for a in arcs], timeout=60)
        for a, (st, val) in zip(arcs, lays):
            if st != "ok" or [m[0] for m in val["members"]] != [f[0] for f in a["files"]]:
                ctx.broken.append({"kind": "correspondence", "name": "layout", "detail": str(val)[:300]})
                a["layout"] = None
            else:
                a["layout"] = val
        arcs = [a for a in arcs if a["layout"]]
        jobs, meta = [], []
        for arc in arcs:
            names = [f[0] for f in arc["files"]]
            n = len(names)
            tsets = [None]
            if arc.get("slow"):
                tsets = [None, ["big.bin"]]
            else:
                subsets = []
                for r in range(1, n + 1):
                    subsets += list(itertools.combinations(range(n), r))
                k = (24 if ctx.thorough else 7)
                pick = rng.sample(subsets, min(k, len(subsets)))
                tsets += [[names[i] for i in s] for s in pick]
                tsets.append(["zz_absent"])
            for ti, tg in enumerate(tsets):
                combos = []
                for h in HANDLERS:
                    for by in ("path", "stream"):
                        for output in ("factory", "dir"):
                            combos.append((h, by, output))
                if arc.get("slow"):
                    combos = [(HANDLERS[0], "path", "factory"), (HANDLERS[1], "stream", "factory")]
                elif not ctx.thorough:
                    combos = rng.sample(combos, 6) + [(rng.choice(HANDLERS[3:7]), "path", "factory")]
                for (h, by, output) in combos:
                    if h["hold"] == "own-start" and output != "factory":
                        continue
                    recursive = bool(tg) and rng.random() < 0.4
                    workers = plan(arc, tg, recursive, by == "path")
                    sel = select(arc["files"], tg, recursive)
                    delivered = [i for ms in workers for (i, size, d) in ms if d and size > 0]
                    # worker write interleaving (factory + parallel only)
                    order = None
                    if output == "factory" and by == "path" and len(arc["folders"]) > 1 and not arc.get("slow"):
                        seqs = [[arc["files"][i][0] for (i, size, d) in ms if d and size > 0] for ms in workers[1:]]
                        counts = [len(s) for s in seqs]
                        if sum(counts):
                            s = schedlib.sample_interleaving(rng, counts)
                            ptr = [0] * len(seqs)
                            order = []
                            for wi in s:
                                order.append(seqs[wi][ptr[wi]])
                                ptr[wi] += 1
                    jobs.append({"path": arc["path"], "cwd": tmp, "handler": h, "by": by, "output": output, "targets": tg, "recursive": recursive,
                                 "order": order, "n_writes": len(delivered), "sink_delays": arc.get("slow")})
                    meta.append((arc, tg, recursive, h, by, output, workers, order))
        res = sandbox.pmap(_session, jobs, timeout=120)
        lines, impl, classes = [], [], []
        upd_lines, upd_impl = [], []
        for (arc, tg, recursive, h, by, output, workers, order), job, (st, val) in zip(meta, jobs, res):
            conf = {"archive": arc["label"], "targets": tg, "recursive": recursive, "handler": h["label"], "open": by, "output": output, "write_order": order}
            files = arc["files"]
            name_to_id = {n: i for i, (n, _, _) in enumerate(files)}
            skipped = any((not d) and size > 0 for ms in workers for (i, size, d) in ms)
            nontrivial = (len(workers) >= 2 or skipped) and (h["label"] != "instant" or order is not None)
            ctx.case(key=(arc["label"], str(tg), recursive, h["label"], by, output, str(order)), nontrivial=nontrivial, sample=conf)
            ctx.count("handler", h["label"])
            ctx.count("open/output", by + "/" + output)
            if st != "ok":
                ctx.fail("C18:session_" + st, "extraction with a callback did not complete: %s" % str(val)[:300], conf)
                continue
            ctx.count("gates-unenforced", val["unenforced"])
            ctx.count("reporter-threads", val["reporter_threads"])
            if val["raised"]:
                ctx.fail("C18:extract_raises", "extraction with a callback raised %s" % val["raised"], conf)
                continue
            evs = val["events"]
            conf2 = dict(conf, events=[list(e) for e in evs][:60])
            if val["close_exc"]:
                ctx.fail("C18:close_raises", "close() raised %s with %d of the events delivered (handler %s)" % (val["close_exc"], val["n_at_close"], h["label"]), conf2)
            if val["n_after"] != val["n_at_close"]:
                ctx.fail("C18:events_after_close", "%d callback(s) arrived after close() ended" % (val["n_after"] - val["n_at_close"]), conf2)
            kinds = [e[0] for e in evs]
            if not evs or kinds[0] != "pre" or kinds.count("pre") != 1:
                ctx.fail("C18:pre_not_first", "preparation is not reported exactly once and first: %s" % kinds[:6], conf2)
            if not evs or kinds[-1] != "post" or kinds.count("post") != 1:
                ctx.fail("C18:post_not_last", "post-processing is not reported exactly once and last: %s" % kinds[-6:], conf2)
            processed = {i: (size, d) for ms in workers for (i, size, d) in ms}
            for i, (size, d) in processed.items():
                nm = files[i][0]
                ss = [k for k, e in enumerate(evs) if e[0] == "s" and e[1] == nm]
                ee = [k for k, e in enumerate(evs) if e[0] == "e" and e[1] == nm]
                if len(ss) != 1 or len(ee) != 1 or ss[0] > ee[0]:
                    ctx.fail("C18:pairing", "member %r: %d start / %d end events" % (nm, len(ss), len(ee)), conf2)
                elif str(evs[ee[0]][2]) != str(size):
                    ctx.fail("C18:end_bytes", "member %r of %d bytes: end event says %s" % (nm, size, evs[ee[0]][2]), conf2)
            stray = [e[1] for e in evs if e[0] in ("s", "e") and name_to_id.get(e[1]) not in processed]
            if stray:
                ctx.fail("C18:stray_events", "events for members the call does not process: %s" % stray[:4], conf2)
            usum = sum(int(e[1]) for e in evs if e[0] == "u")
            want = sum(size for (size, d) in processed.values() if d)
            if usum != want:
                ctx.fail("C18:update_sum", "update events sum to %d, delivered members hold %d bytes" % (usum, want), conf2)
            # correspondence with the model
            toks, sched, chunks, ok = attribute(workers, evs, name_to_id)
            flush = list(range(len(workers))) * 0
            lines.append(model_line(workers, sched, chunks))
            impl.append(" ".join(toks) + " done=1")
            classes.append("%d-workers" % len(workers))
            if arc.get("slow"):
                for nm, its in val["iters"].items():
                    i = name_to_id.get(nm)
                    us = chunks.get(i, [])
                    if len(its) < 2:
                        continue
                    # which iterations reported: the partition of the iteration sizes that reproduces the observed updates
                    due, acc, k = [], 0, 0
                    for n_ in its:
                        acc += n_
                        if k < len(us) and acc == us[k]:
                            due.append(1)
                            acc, k = 0, k + 1
                        else:
                            due.append(0)
                    ok_part = (k == len(us) and acc == 0)
                    if not ok_part:
                        due = [0] * len(its)
                    upd_lines.append("prog.upd " + ",".join("%d:%d" % (n_, d_) for n_, d_ in zip(its, due)))
                    upd_impl.append(",".join(map(str, us)) or "-")
                    ctx.count("updates-per-slow-member", len(us))
                    ctx.count("iterations-per-slow-member", len(its))
        ctx.correspond("prog.run", lines, impl, classes)
        ctx.correspond("prog.upd", upd_lines, upd_impl)
        # link members
        ljobs = [(tmp, None), (tmp, ["t/ln_a"]), (tmp, ["t/sub/ln_up", "t/a.txt"]), (tmp, ["t/ln_dir", "t/sub/b.bin"])]
        for (_, tg), (st, val) in zip(ljobs, sandbox.pmap(_link_progress, ljobs, timeout=60)):
            conf = {"archive": "tree with three symbolic links (to a file, upward to a file, to a directory)", "targets": tg, "output": "dir"}
            ctx.case(key=("links", str(tg)), nontrivial=True, sample=conf)
            if st != "ok":
                ctx.fail("C18:links_" + st, "extraction with a callback did not complete: %s" % str(val)[:200], conf)
                continue
            if val["update_sum"] != val["want"]:
                ctx.fail("C18:update_sum", "update events sum to %d, delivered members (links included) hold %d bytes" % (val["update_sum"], val["want"]), dict(conf, result=val))
            if val["starts"] != val["ends"] or val["first"] != "pre" or val["last"] != "post":
                ctx.fail("C18:repeat_account", "with link members the account is not complete and well ordered", dict(conf, result=val))
        # repeated extractions with callbacks in one session
        rjobs = []
        for arc in arcs[: (6 if ctx.thorough else 3)]:
            for reps in (2, 3):
                for output in ("factory", "dir"):
                    rjobs.append((arc["path"], reps, output, rng.choice(["path", "stream"]), rng.choice([0, 0, 0.01]), ()))
            # calls without a callback (an extraction, testzip(), test()) before the extractions that have one
            for quiet in (("plain",), (None, "plain"), ("testzip",), ("test", "testzip")):
                rjobs.append((arc["path"], 2, rng.choice(["factory", "dir"]), rng.choice(["path", "stream"]), 0, quiet))
        rres = sandbox.pmap(_repeat_session, rjobs, timeout=120, workers=8)
        for (path, reps, output, by, delay, quiet), (st, val) in zip(rjobs, rres):
            conf = {"archive": os.path.basename(path), "extractions": reps, "output": output, "open": by, "handler_delay": delay, "before_each": list(quiet)}
            ctx.case(key=("repeat", os.path.basename(path), reps, output, by, quiet), nontrivial=True, sample=conf)
            if st != "ok":
                ctx.fail("C18:repeat_" + st, "a session with %d callback extractions did not complete: %s" % (reps, str(val)[:200]), conf)
                continue
            ctx.count("repeat-sessions", "closed" if val["closed"] else "CLOSE-HANGS")
            if not val["closed"]:
                ctx.fail("C18:close_hangs", "close() did not return within 10 s after %d extractions with callbacks on one object" % reps, dict(conf, result=val))
                continue
            if val["raised"]:
                ctx.fail("C18:repeat_raises", "a repeated extraction raised %s" % val["raised"], dict(conf, result=val))
                continue
            if any(val["late"]):
                ctx.fail("C18:events_after_close", "events were delivered after close() returned", dict(conf, result=val))
            for k, c in enumerate(val["cbs"]):
                if not (c["pre_first"] and c["post_last"] and c["pre"] == 1 and c["post"] == 1 and c["paired"]):
                    ctx.fail("C18:repeat_account", "extraction %d of a session did not get a complete, well-ordered account of its own" % k, dict(conf, result=val))
                    break
    finally:
        shutil.rmtree(tmp, ignore_errors=True)


def replay(ctx, data):
    print(str(data.get("failure"))[:3000])
    return 0
