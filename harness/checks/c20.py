"""C20 — streaming in bounded memory, however large or compressible a member is."""
import io
import os
import shutil
import tempfile

import arclib
import sandbox
import streams_dec

ID = "C20"
RULE = ("dec stream (decode model with carry-over buffer sizes) + exploration: per codec family one large member generated "
        "lazily (zeros / short period / medium ratio / random / incompressible head then zeros), written with writef and extracted with extractall(factory)/testzip in "
        "separate child processes; peak RSS (ru_maxrss) compared with the import baseline + 700 MiB. Quick: 256 MB "
        "members; thorough: 1 GB and more chains. Non-trivial = a run whose member is >= 2x the 128 MB extraction chunk; "
        "distinct by (chain, texture, size, phase).")
ASSUMPTIONS = ["RSS is a measurement (allocator behaviour is runtime); the theorems bound what py7zr's own bookkeeping retains per call",
               "third-party decoders' internal memory is a parameter"]

BUDGET_MIB = 700


class LazySource(io.BufferedIOBase):
    """A seekable source of `size` bytes that are never all in memory."""

    def __init__(self, size, texture, seed=1):
        self.size = size
        self.pos = 0
        self.texture = texture
        if texture == "zeros":
            self.unit = bytes(1 << 20)
        elif texture == "period":
            self.unit = (b"abcdefg" * (1 << 18))[: 1 << 20]
        elif texture == "mid":
            # medium ratio (about 2:1): sixteen symbols, no long-range repetition inside 8 MiB
            import random
            r = random.Random(seed)
            self.unit = bytes(b & 0x0F for b in r.randbytes(8 << 20))
        elif texture == "headzeros":
            # an incompressible head (512 KiB) in front of zeros: a decoder that adapts to what it has seen so far
            # (piece sizes, window, block statistics) meets the highly compressible part in its "incompressible" state
            import random
            self.head = random.Random(seed).randbytes(512 << 10)
            self.unit = bytes(1 << 20)
        else:
            import random
            self.unit = random.Random(seed).randbytes(1 << 20)

    def readable(self):
        return True

    def seekable(self):
        return True

    def tell(self):
        return self.pos

    def seek(self, off, whence=0):
        if whence == 0:
            self.pos = off
        elif whence == 1:
            self.pos += off
        else:
            self.pos = self.size + off
        return self.pos

    def read(self, n=-1):
        if n is None or n < 0:
            n = self.size - self.pos
        n = max(0, min(n, self.size - self.pos))
        out = bytearray()
        head = getattr(self, "head", b"")
        if self.pos < len(head) and n > 0:
            chunk = head[self.pos:self.pos + n]
            out += chunk
            self.pos += len(chunk)
        while len(out) < n:
            o = self.pos % len(self.unit)
            chunk = self.unit[o:o + (n - len(out))]
            out += chunk
            self.pos += len(chunk)
        return bytes(out)


def _rss():
    import resource
    return resource.getrusage(resource.RUSAGE_SELF).ru_maxrss // 1024


def _write_job(a):
    path, filters, password, size, texture, position = a
    import py7zr
    base = _rss()
    if filters == "ref:deflate64":
        # py7zr cannot write Deflate64: the archive comes from the independent reference writer (peak memory of
        # this step says nothing about py7zr and is not judged)
        import random
        import refwriter
        import checks.c06 as c06
        size = min(size, 512 << 20)
        members = [{"name": "small0.txt", "kind": "file", "data": b"small before"}, {"name": "big.bin", "kind": "file", "data": LazySource(size, texture).read()},
                   {"name": "small1.txt", "kind": "file", "data": b"small after"}]
        for m in members:
            m.update({"attr": c06.FILE_ATTR, "mtime": 130000000000000000, "ctime": None, "atime": None})
        lay = {"folders": [("deflate64", [0, 1, 2])], "crc_place": "sub", "nums_omitted": True, "packcrc": False, "packpos": 0, "dummy": 0,
               "emptyfile_vector": True, "header": "raw", "password": None, "nonminimal": False}
        with open(path, "wb") as f:
            f.write(refwriter.build(members, lay, random.Random(1)))
        return base, base, os.path.getsize(path)
    kw = {"filters": filters}
    if password:
        kw["password"] = password
    with py7zr.SevenZipFile(path, "w", **kw) as z:
        if position != "first":
            z.writestr(b"small before", "small0.txt")
        z.writef(LazySource(size, texture), "big.bin")
        if position != "last":
            z.writestr(b"small after", "small1.txt")
    return base, _rss(), os.path.getsize(path)


def _link_job(a):
    """a member flagged as a symbolic link whose 'target' is a very large, highly compressible stream"""
    path, size, how = a
    import random
    import py7zr
    import refwriter
    import checks.c06 as c06
    members = [{"name": "before.txt", "kind": "file", "data": b"small before", "attr": c06.FILE_ATTR},
               {"name": "ln", "kind": "symlink", "data": bytes(size), "attr": c06.LINK_ATTR}]
    for m in members:
        m.update({"mtime": 130000000000000000, "ctime": None, "atime": None})
    lay = {"folders": [("deflate", [0, 1])], "crc_place": "sub", "nums_omitted": False, "packcrc": False, "packpos": 0, "dummy": 0,
           "emptyfile_vector": True, "header": "raw", "password": None, "nonminimal": False}
    with open(path, "wb") as f:
        f.write(refwriter.build(members, lay, random.Random(1)))
    del members
    base = _rss()
    raised = None
    out = path + ".out"
    try:
        with py7zr.SevenZipFile(path, "r") as z:
            if how == "testzip":
                z.testzip()
            else:
                z.extractall(out)
    except Exception as e:  # noqa
        raised = type(e).__name__
    shutil.rmtree(out, ignore_errors=True)
    return base, _rss(), raised


def _extract_job(a):
    path, password, how = a
    import py7zr
    base = _rss()
    kw = {"password": password} if password else {}
    with py7zr.SevenZipFile(path, "r", **kw) as z:
        if how == "factory":
            z.extractall(factory=py7zr.io.NullIOFactory())
        elif how in ("targets-after", "targets-before"):
            # selective extraction: the big member is NOT wanted and stands before (after) the wanted one in the same
            # solid folder, so it is decoded only to be skipped
            f = py7zr.io.BytesIOFactory(1 << 20)
            want = "small1.txt" if how == "targets-after" else "small0.txt"
            z.extract(targets=[want], factory=f)
            got = {k: v.read() if not v.seek(0) else None for k, v in f.products.items()}
            if list(got) != [want] or got[want] != (b"small after" if how == "targets-after" else b"small before"):
                raise RuntimeError("extract(targets=[%r]) delivered %r" % (want, {k: len(v or b"") for k, v in got.items()}))
        elif how == "testzip":
            r = z.testzip()
            if r is not None:
                raise RuntimeError("testzip reports " + str(r))
        else:
            out = path + ".out"
            z.extractall(out)
            sz = os.path.getsize(os.path.join(out, "big.bin"))
            shutil.rmtree(out)
            return base, _rss(), sz
    return base, _rss(), None


def run(ctx):
    rng = ctx.rng
    ctx.lean_obligations("SevenZ.Props.C20")
    streams_dec.run(ctx, n_calls=(6000 if ctx.thorough else 1500), n_loop=(400 if ctx.thorough else 100))
    streams_dec.run_stages(ctx)
    size = (1 << 30) if ctx.thorough else (256 << 20)
    fam = [("LZMA2", [{"id": arclib.FILTER_LZMA2, "preset": 1}], "zeros"),
           ("Copy", [{"id": arclib.FILTER_COPY}], "period"),
           ("BZip2", [{"id": arclib.FILTER_BZIP2}], "zeros"),
           ("Deflate", [{"id": arclib.FILTER_DEFLATE}], "zeros"),
           ("ZStandard", [{"id": arclib.FILTER_ZSTD, "level": 1}], "zeros"),
           ("LZMA2-random", [{"id": arclib.FILTER_LZMA2, "preset": 0}], "random"),
           # a compressor that is not the last stage of the decoder chain (BCJ filter behind it)
           ("X86+BZip2", [{"id": arclib.FILTER_X86}, {"id": arclib.FILTER_BZIP2}], "zeros"),
           ("ARM+LZMA", [{"id": arclib.FILTER_ARM}, {"id": arclib.FILTER_LZMA, "preset": 1}], "zeros"),
           # medium-ratio members: the packed stream spans many input blocks, every block expands a little
           ("ZStandard-mid", [{"id": arclib.FILTER_ZSTD, "level": 1}], "mid"),
           ("Deflate-mid", [{"id": arclib.FILTER_DEFLATE}], "mid"),
           ("Deflate64", "ref:deflate64", "zeros"),
           # incompressible head, then zeros (see LazySource): every decoder family with an output limit of its own
           ("Deflate64-head", "ref:deflate64", "headzeros"),
           ("Deflate-head", [{"id": arclib.FILTER_DEFLATE}], "headzeros"),
           ("ZStandard-head", [{"id": arclib.FILTER_ZSTD, "level": 1}], "headzeros"),
           ("LZMA2-head", [{"id": arclib.FILTER_LZMA2, "preset": 1}], "headzeros"),
           # selective extraction past an unwanted member well above the budget (see 'targets-after' below)
           ("LZMA2-skip", [{"id": arclib.FILTER_LZMA2, "preset": 1}], "zeros"),
           ("ZStandard-skip", [{"id": arclib.FILTER_ZSTD, "level": 1}], "zeros")]
    if ctx.thorough:
        fam += [("LZMA", [{"id": arclib.FILTER_LZMA, "preset": 1}], "zeros"),
                ("Brotli", [{"id": arclib.FILTER_BROTLI, "level": 1}], "zeros"),
                ("PPMd", [{"id": arclib.FILTER_PPMD, "order": 4, "mem": 20}], "zeros"),
                ("X86+LZMA2", [{"id": arclib.FILTER_X86}, {"id": arclib.FILTER_LZMA2, "preset": 1}], "period"),
                ("Delta+LZMA2", [{"id": arclib.FILTER_DELTA, "dist": 2}, {"id": arclib.FILTER_LZMA2, "preset": 1}], "period"),
                ("LZMA2+AES", arclib.with_aes([{"id": arclib.FILTER_LZMA2, "preset": 1}]), "zeros"),
                ("Deflate-period", [{"id": arclib.FILTER_DEFLATE}], "period")]
    tmp = tempfile.mkdtemp(prefix="verif_c20_")
    try:
        wjobs = []
        for i, (nm, f, tex) in enumerate(fam):
            pw = "pw" if "AES" in nm else None
            # Deflate64 has no output limit of its own (py7zr feeds it piecewise): the member that follows an
            # incompressible head is made large enough for a one-shot inflate of the rest to cross the budget
            # the highly compressible members of the fast codecs are 1 GiB in the quick tier too: a decoder that inflates
            # "the rest" in one call stays under the budget at 256 MiB and does not at 1 GiB
            big = nm.endswith("-skip") or (tex == "zeros" and nm in ("Deflate", "ZStandard", "LZMA2", "Deflate64"))
            sz = max(size, 448 << 20) if nm == "Deflate64-head" else (1 << 30) if big else size
            wjobs.append((os.path.join(tmp, "a%d.7z" % i), f, pw, sz, tex, "middle" if nm.endswith("-skip") else ["first", "last", "middle"][i % 3]))
        wres = sandbox.pmap(_write_job, wjobs, workers=8, timeout=900 if ctx.thorough else 300, mem=None)
        ejobs, emeta = [], []
        for (nm, f, tex), wj, (st, val) in zip(fam, wjobs, wres):
            size_w = wj[3]
            key = (nm, tex, size_w, "write")
            ctx.case(key=key, nontrivial=True, sample={"chain": nm, "texture": tex, "size": size, "phase": "write", "result": str(val)[:80] if st != "ok" else {"base": val[0], "peak": val[1], "archive": val[2]}})
            if st != "ok":
                ctx.fail("C20:write_failed:" + nm, "writing a %d-byte member failed: %s %s" % (size, st, str(val)[:200]), {"chain": nm, "texture": tex, "size": size})
                continue
            base, peak, arcsize = val
            ctx.count("write_peak_above_base_mib", nm, peak - base)
            if peak - base > BUDGET_MIB:
                ctx.fail("C20:write_rss:" + nm.split("-")[0] + ":" + tex, "writing one %d MiB %s member through %s peaked %d MiB above the interpreter baseline" % (size_w >> 20, tex, nm, peak - base),
                         {"chain": nm, "texture": tex, "size": size, "peak_mib": peak, "base_mib": base})
            hows = ["factory", "testzip"] if not ctx.thorough else ["factory", "testzip", "path"]
            if nm.endswith("-skip"):
                hows = ["targets-after", "targets-before"]
            elif wj[5] == "middle" and f != "ref:deflate64":
                hows = hows + ["targets-after"]
            for how in hows:
                ejobs.append((wj[0], wj[2], how))
                emeta.append((nm, tex, how, wj[3]))
        eres = sandbox.pmap(_extract_job, ejobs, workers=8, timeout=900 if ctx.thorough else 300, mem=None)
        for (nm, tex, how, size_x), (st, val) in zip(emeta, eres):
            ctx.case(key=(nm, tex, size_x, how), nontrivial=True)
            if st != "ok":
                ctx.fail("C20:extract_failed:" + nm, "extracting a %d-byte member failed: %s %s" % (size, st, str(val)[:200]), {"chain": nm, "how": how})
                continue
            base, peak, _ = val
            ctx.count("extract_peak_above_base_mib", nm + "/" + how, peak - base)
            if peak - base > BUDGET_MIB:
                ctx.fail("C20:extract_rss:" + nm.split("-")[0] + ":" + tex, "extracting one %d MiB %s member (%s) through %s peaked %d MiB above the interpreter baseline" % (size_x >> 20, tex, how, nm, peak - base),
                         {"chain": nm, "texture": tex, "size": size, "how": how, "peak_mib": peak, "base_mib": base})
        # a link member's "target" is read whole before the link is made: however large the archive says it is, the
        # budget holds (a real target is a path: a few thousand bytes at most)
        lsize = 1 << 30
        for how, (st, val) in zip(("path", "testzip"), sandbox.pmap(_link_job, [(os.path.join(tmp, "ln_%s.7z" % h), lsize, h) for h in ("path", "testzip")],
                                                                  workers=2, timeout=600, mem=None)):
            conf = {"member": "symbolic link whose stored target is %d MiB of zeros (Deflate, reference writer)" % (lsize >> 20), "how": how}
            ctx.case(key=("link-target", lsize, how), nontrivial=True, sample=conf)
            if st != "ok":
                ctx.fail("C20:extract_failed:link", "extracting a link member with a %d-byte target did not complete: %s %s" % (lsize, st, str(val)[:200]), conf)
                continue
            base, peak, raised = val
            ctx.count("extract_peak_above_base_mib", "link-target/" + how, peak - base)
            ctx.count("link-target-outcome", "%s/%s" % (how, raised or "returned"))
            if peak - base > BUDGET_MIB:
                ctx.fail("C20:extract_rss:link", "a link member whose stored target is %d MiB (%s) peaked %d MiB above the interpreter baseline" % (lsize >> 20, how, peak - base),
                         dict(conf, peak_mib=peak, base_mib=base, outcome=raised))
    finally:
        shutil.rmtree(tmp, ignore_errors=True)


def replay(ctx, data):
    print(data.get("failure"))
    return 0
