"""C05 — any input terminates in bounded time and memory; the interpreter survives."""
import io
import struct
import zlib

import arclib
import hdrlib
import sandbox
import streams_dec
import streams_hdr

ID = "C05"
RULE = ("dec stream: SevenZipDecompressor.decompress/Worker.decompress driven by scripted decoders (honouring / ignoring "
        "max_length, copy, empty-forever) vs the Lean decode model incl. the stall guard; hdr stream with mutated headers; "
        "exploration: byte strings from (a) truncation/bit flips/splices of valid archives of each codec family, (b) "
        "structure-aware header mutation (counts, sizes, external flags with every data index) with all CRCs re-sealed, "
        "(c) wrong/missing password, (d) every filter coder (BCJ family incl. IA64, Delta) x every property shape (absent, "
        "empty, zero/non-zero start offset, short, long), each x a sequence of read-mode calls, run in a sandboxed child (wall 10 s, "
        "address space 1.5 GiB). Non-trivial = input that is not accepted unchanged; distinct by (bytes, call sequence).")
ASSUMPTIONS = ["wall-clock and RSS are measured by the sandbox, not proved; the proof bounds loop iterations for every decoder",
               "third-party decoders themselves terminate on every input (parameter)"]

WALL = 10
RSS_LIMIT = 700   # MiB above which a few-hundred-byte input counts as 'allocates gigabytes'
MEM = 1536 * 1024 * 1024
OPS = ["getnames", "list", "test", "testzip", "extractall", "extract", "reset", "extractall", "testzip"]


def seal(payload, header):
    """32-byte signature header + payload + header, all CRCs valid."""
    nh_crc = zlib.crc32(header) & 0xFFFFFFFF
    start = struct.pack("<QQL", len(payload), len(header), nh_crc)
    return b"7z\xbc\xaf\x27\x1c\x00\x04" + struct.pack("<L", zlib.crc32(start) & 0xFFFFFFFF) + start + payload + header


def split_archive(data):
    ofs, size, _ = struct.unpack("<QQL", data[12:32])
    return data[32:32 + ofs], data[32 + ofs:32 + ofs + size]


def _session(job):
    data, seq, password = job
    import py7zr
    out = []
    try:
        z = py7zr.SevenZipFile(io.BytesIO(data), "r", password=password)
    except Exception as e:  # noqa
        import resource
        return ["open:" + type(e).__name__, "rss:%d" % (resource.getrusage(resource.RUSAGE_SELF).ru_maxrss // 1024)]
    out.append("open:ok")
    for op in seq:
        try:
            if op == "getnames":
                z.getnames()
            elif op == "list":
                z.list()
            elif op == "test":
                z.test()
            elif op == "testzip":
                z.testzip()
            elif op == "extractall":
                z.extractall(factory=py7zr.io.NullIOFactory())
            elif op == "extract":
                names = z.getnames()
                z.extract(targets=names[:1], factory=py7zr.io.NullIOFactory())
            elif op == "reset":
                z.reset()
            out.append(op + ":ok")
        except Exception as e:  # noqa
            out.append(op + ":" + type(e).__name__)
    try:
        z.close()
    except Exception as e:  # noqa
        out.append("close:" + type(e).__name__)
    import resource
    out.append("rss:%d" % (resource.getrusage(resource.RUSAGE_SELF).ru_maxrss // 1024))
    return out


def base_archives(rng, thorough):
    members = [("a.txt", b"hello world " * 30), ("dir/b.bin", rng.randbytes(300)), ("c.txt", b"")]
    out = []
    fams = [("LZMA2", [{"id": arclib.FILTER_LZMA2, "preset": 1}]), ("Copy", [{"id": arclib.FILTER_COPY}]),
            ("BZip2", [{"id": arclib.FILTER_BZIP2}]), ("Deflate", [{"id": arclib.FILTER_DEFLATE}]),
            ("ZStandard", [{"id": arclib.FILTER_ZSTD, "level": 1}]), ("PPMd", [{"id": arclib.FILTER_PPMD, "order": 4, "mem": 16}]),
            ("BCJ+LZMA2", [{"id": arclib.FILTER_X86}, {"id": arclib.FILTER_LZMA2, "preset": 1}]),
            ("LZMA", [{"id": arclib.FILTER_LZMA, "preset": 1}]), ("Brotli", [{"id": arclib.FILTER_BROTLI, "level": 3}])]
    for nm, f in fams:
        out.append((nm, arclib.write_archive(members, filters=f, header="raw"), None))
    out.append(("LZMA2-enchdr", arclib.write_archive(members, filters=fams[0][1]), None))
    out.append(("AES", arclib.write_archive(members, password="pw"), "pw"))
    out.append(("AES-hdr", arclib.write_archive(members, password="pw", header="encrypted"), "pw"))
    two = arclib.write_archive(members[:2], filters=fams[1][1], header="raw")
    two = arclib.write_archive([("late.bin", rng.randbytes(100))], filters=fams[0][1], append_to=two)
    out.append(("multifolder", two, None))
    return out


def byte_mutations(rng, data, n):
    out = []
    for _ in range(n):
        k = rng.random()
        b = bytearray(data)
        if k < 0.45:
            i = rng.randrange(len(b))
            b[i] ^= 1 << rng.randrange(8)
        elif k < 0.6:
            del b[rng.randrange(len(b)):]
        elif k < 0.75:
            i = rng.randrange(len(b))
            b[i] = rng.choice([0, 0xFF, 0x80, 1])
        elif k < 0.9:
            i, j = sorted(rng.randrange(len(b)) for _ in range(2))
            b[i:j] = b[i:j][::-1]
        else:
            i = rng.randrange(len(b))
            b[i:i] = rng.randbytes(rng.randrange(1, 9))
        out.append(bytes(b))
    return out


EXTREMES = [0, 1, 2, 127, 128, 255, 256, 65535, 65536, 2 ** 24, 2 ** 32 - 1, 2 ** 32, 2 ** 40, 2 ** 63 - 1, 2 ** 63, 2 ** 64 - 1]


def structural_mutations(rng, data, n, force=None):
    """Parse the raw header with py7zr's own classes, set one field to an extreme, re-serialise, re-seal."""
    import py7zr.archiveinfo as ai
    payload, hdr = split_archive(data)
    out = []
    if hdr[:1] != b"\x01":
        return out
    for _ in range(n):
        try:
            h = ai.Header.retrieve(io.BytesIO(b""), io.BytesIO(hdr), 0)
        except Exception:  # noqa
            return out
        v = rng.choice(EXTREMES)
        s = h.main_streams
        fi = h.files_info
        what = rng.randrange(14) if force is None else force
        try:
            if what == 0 and s:
                s.packinfo.packsizes[rng.randrange(len(s.packinfo.packsizes))] = v
            elif what == 1 and s:
                s.packinfo.packpos = v
            elif what == 2 and s:
                f = rng.choice(s.unpackinfo.folders)
                f.unpacksizes[rng.randrange(len(f.unpacksizes))] = v
            elif what == 3 and s and s.substreamsinfo.unpacksizes:
                s.substreamsinfo.unpacksizes[rng.randrange(len(s.substreamsinfo.unpacksizes))] = v
            elif what == 4 and s:
                s.substreamsinfo.num_unpackstreams_folders[rng.randrange(len(s.substreamsinfo.num_unpackstreams_folders))] = min(v, 2 ** 20)
            elif what == 5 and s:
                c = rng.choice(rng.choice(s.unpackinfo.folders).coders)
                c["properties"] = rng.choice([None, b"", rng.randbytes(1), rng.randbytes(5), rng.randbytes(40)])
            elif what == 6 and s:
                c = rng.choice(rng.choice(s.unpackinfo.folders).coders)
                c["method"] = rng.choice([b"\x21", b"\x00", b"\x03\x01\x01", b"\x04\x02\x02", b"\x06\xf1\x07\x01", b"\x04\xf7\x11\x04", b"\x09\x09", b"\x03\x03\x01\x1b"])
            elif what == 7 and fi and fi.files:
                fi.files[rng.randrange(len(fi.files))]["emptystream"] = rng.random() < 0.5
            elif what == 8 and fi and fi.files:
                fi.files[rng.randrange(len(fi.files))]["filename"] = rng.choice(["", "a" * 5000, "\x01", "x/../../y", "/abs"])
            elif what == 9 and s:
                s.substreamsinfo.digests[rng.randrange(len(s.substreamsinfo.digests))] = rng.getrandbits(32)
            elif what == 10 and s:
                s.packinfo.numstreams = len(s.packinfo.packsizes)
                s.unpackinfo.folders = s.unpackinfo.folders * 2
                s.unpackinfo.numfolders = len(s.unpackinfo.folders)
            elif what == 11 and fi:
                fi.files = fi.files + [dict(f) for f in fi.files]
            elif what in (12, 13) and s:
                # coordinated: the header promises more packed AND more unpacked bytes than the file holds,
                # so the coder runs dry while the loop still believes input is left
                big = rng.choice([2 ** 32, 2 ** 40, 2 ** 48, 2 ** 63 - 1, 2 ** 63, 2 ** 64 - 1])
                delta = rng.choice([1, 1000, 2 ** 20, 2 ** 31])
                k = rng.randrange(len(s.unpackinfo.folders))
                f = s.unpackinfo.folders[k]
                f.unpacksizes = [u + delta for u in f.unpacksizes]
                nums = s.substreamsinfo.num_unpackstreams_folders
                if s.substreamsinfo.unpacksizes and sum(nums[: k + 1]) - 1 < len(s.substreamsinfo.unpacksizes) and nums[k] > 0:
                    s.substreamsinfo.unpacksizes[sum(nums[: k + 1]) - 1] += delta
                ps = s.packinfo.packsizes
                ps[min(k, len(ps) - 1) if what == 12 else len(ps) - 1] = big
            buf = io.BytesIO()
            h.write(buf, 0, encoded=False)
            out.append(("struct%d" % what, seal(payload, buf.getvalue())))
        except Exception:  # noqa
            continue
    return out


PROP_SHAPES = [None, b"", bytes(4), (16).to_bytes(4, "little"), b"\x01", bytes(5), bytes(range(40)), b"\xff" * 4]


def coder_property_sweep(rng):
    """Every filter the decoder dispatches on (the BCJ family incl. IA64, Delta) in front of LZMA2, with every
    shape of coder property a header can legally carry for it (absent, empty, 4-byte start offset zero /
    non-zero, too short, too long): a property is handed to the native filter set-up code, which must
    refuse it with an exception, never with the death of the interpreter."""
    import py7zr.archiveinfo as ai
    members = [("a.bin", bytes(range(64)) * 3), ("b.txt", b"hello")]
    fams = [("X86", arclib.FILTER_X86), ("ARM", arclib.FILTER_ARM), ("ARMT", arclib.FILTER_ARMTHUMB), ("PPC", arclib.FILTER_POWERPC),
            ("SPARC", arclib.FILTER_SPARC), ("IA64", arclib.FILTER_IA64), ("Delta", arclib.FILTER_DELTA)]
    out = []
    for nm, fid in fams:
        flt = [{"id": fid, "dist": 1} if nm == "Delta" else {"id": fid}, {"id": arclib.FILTER_LZMA2, "preset": 1}]
        try:
            data = arclib.write_archive(members, filters=flt, header="raw")
        except Exception:  # noqa
            continue
        payload, hdr = split_archive(data)
        for shape in PROP_SHAPES:
            try:
                h = ai.Header.retrieve(io.BytesIO(b""), io.BytesIO(hdr), 0)
                for f in h.main_streams.unpackinfo.folders:
                    for c in f.coders:
                        if c["method"] != b"\x21":
                            c["properties"] = shape
                buf = io.BytesIO()
                h.write(buf, 0, encoded=False)
                out.append(("%s+LZMA2" % nm, "prop-%s" % ("none" if shape is None else len(shape) if any(shape) or not shape else "zero%d" % len(shape)), seal(payload, buf.getvalue())))
            except Exception:  # noqa
                continue
    return out


def aes_property_sweep():
    """The 7zAES coder property in every shape a header can carry: the one-byte form (no salt, no IV) and the long
    form, each with every key-stretching exponent class (0, the writer's 19, the decoder's bound 24, just above it, the
    largest 0x3E, the unhashed 0x3F), truncated and empty properties - in a content folder and in the folder of an
    encrypted header, opened WITH a password (without one the call stops at PasswordRequired before any of it is looked
    at). 2^25 rounds of SHA-256 already take longer than any call may; 2^62 never end."""
    members = [("a.bin", bytes(range(64)) * 3)]
    out = []
    aes = [{"id": arclib.FILTER_COPY}, {"id": arclib.FILTER_CRYPTO_AES256_SHA256}]
    for mode, label in (("raw", "AESraw"), ("encrypted", "AEShdr")):
        try:
            data = arclib.write_archive(members, filters=aes, password="pw", header=mode)
        except Exception:  # noqa
            continue
        payload, hdr = split_archive(data)
        i = hdr.find(b"\x06\xf1\x07\x01")
        if i < 0 or hdr[i + 4] >= 0x80:
            continue
        n = hdr[i + 4]
        props = hdr[i + 5:i + 5 + n]
        shapes = [("empty", b"")]
        for cyc in (0x00, 0x13, 0x18, 0x19, 0x1E, 0x30, 0x3E, 0x3F):
            shapes.append(("short-%02x" % cyc, bytes([cyc])))
            shapes.append(("short2-%02x" % cyc, bytes([cyc, 0x00])))
            shapes.append(("long-%02x" % cyc, bytes([(props[0] & 0xC0) | cyc]) + props[1:]))
            shapes.append(("flags-nosizes-%02x" % cyc, bytes([0xC0 | cyc])))
            shapes.append(("truncated-%02x" % cyc, bytes([(props[0] & 0xC0) | cyc]) + props[1:len(props) // 2]))
        for nm, pr in shapes:
            out.append((label, "aesprop-" + nm, seal(payload, hdr[:i + 4] + bytes([len(pr)]) + pr + hdr[i + 5 + n:])))
    return out


def raw_count_mutations(rng, data):
    """Overwrite NUMBER fields in place with huge values (the serialiser would refuse some of them)."""
    payload, hdr = split_archive(data)
    out = []
    if hdr[:1] != b"\x01":
        return out
    # numfiles sits right after the 0x05 id; folder count after 0x07 0x0b; stream count after 0x06 <packpos>
    for marker, label in ((b"\x05", "numfiles"), (b"\x07\x0b", "numfolders"), (b"\x0d", "numunpack"), (b"\x0e", "emptystream-size"), (b"\x11", "names-size")):
        i = hdr.find(marker)
        while i >= 0 and len(out) < 40:
            for big in (b"\xff" + struct.pack("<Q", 2 ** 40), b"\xf0\xff\xff\xff\x7f", b"\xe0\x00\x00\x10", b"\xff" * 9):
                j = i + len(marker)
                out.append(("raw-" + label, seal(payload, hdr[:j] + big + hdr[j + 1:])))
            i = hdr.find(marker, i + 1)
            if rng.random() < 0.5:
                break
    return out


def count_vector_bombs():
    """Tiny synthetic headers in which ONE count is large but not absurd (2^24 .. 2^31) and the vector that depends on
    it is stored in its shortest form (the all-defined byte, or no vector at all): the parser must notice that the
    header cannot hold that many entries before it builds lists of that length."""
    out = []
    for n in (2 ** 24, 2 ** 27, 2 ** 31):
        num = b"\xff" + struct.pack("<Q", n)
        # one folder with one Copy coder; NumUnpackStream = n; CRC property with the all-defined byte
        streams = bytes([0x04, 0x06, 0x00, 0x01, 0x09, 0x01, 0x00, 0x07, 0x0B, 0x01, 0x00, 0x01, 0x01, 0x00, 0x0C, 0x01, 0x00, 0x08, 0x0D]) + num
        out.append(("bomb-numunpack-crc-alldefined-%d" % n, seal(b"x", b"\x01" + streams + bytes([0x0A, 0x01]))))
        # the same without any CRC property: the reader fills in 'undefined' for every stream
        out.append(("bomb-numunpack-nocrc-%d" % n, seal(b"x", b"\x01" + streams + bytes([0x00, 0x00, 0x00]))))
        # n packed streams with an all-defined CRC vector
        out.append(("bomb-numpack-crc-%d" % n, seal(b"x", b"\x01" + bytes([0x04, 0x06, 0x00]) + num + bytes([0x09]))))
        # n folders
        out.append(("bomb-numfolders-%d" % n, seal(b"x", b"\x01" + bytes([0x04, 0x07, 0x0B]) + num + bytes([0x00]))))
        # n files with an all-defined attribute vector / time vector
        out.append(("bomb-attrs-%d" % n, seal(b"", b"\x01\x05" + num + bytes([0x15, 0x02, 0x01, 0x00, 0x00, 0x00]))))
        out.append(("bomb-mtime-%d" % n, seal(b"", b"\x01\x05" + num + bytes([0x14, 0x02, 0x01, 0x00, 0x00, 0x00]))))
    return out


def external_mutations(data):
    """Set the 'external' byte of Names / Attributes / folder definitions to 1, with every data index."""
    payload, hdr = split_archive(data)
    out = []
    if hdr[:1] != b"\x01":
        return out
    # tiny synthetic headers: FilesInfo with one file, a dummy, and an external NAME whose index sweeps the header
    for idx in range(0, 14):
        h = bytes([0x01, 0x05, 0x01, 0x19, 0x02, 0x00, 0x00, 0x11, 0x02, 0x01, idx, 0x00, 0x00])
        out.append(("ext-name-%d" % idx, seal(b"", h)))
        h = bytes([0x01, 0x05, 0x01, 0x19, 0x02, 0x00, 0x00, 0x15, 0x03, 0x01, 0x01, idx, 0x00, 0x00])
        out.append(("ext-attr-%d" % idx, seal(b"", h)))
    i = hdr.find(b"\x11")
    if i >= 0:
        # real header: flip the external byte of the NAME property and sweep the index byte that follows
        size_len = 1 if hdr[i + 1] < 0x80 else 2
        e = i + 1 + size_len
        for idx in range(0, min(len(hdr), 120), 3):
            hh = bytearray(hdr)
            hh[e] = 1
            hh[e + 1] = idx
            out.append(("ext-realname-%d" % idx, seal(payload, bytes(hh))))
    j = hdr.find(b"\x07\x0b")
    if j >= 0:
        for idx in range(0, min(len(hdr), 100), 5):
            hh = bytearray(hdr)
            hh[j + 3] = 1
            hh[j + 3:j + 4] = bytes([1, idx])
            out.append(("ext-folder-%d" % idx, seal(payload, bytes(hh))))
    return out


def run(ctx):
    rng = ctx.rng
    ctx.lean_obligations("SevenZ.Props.C05")
    streams_dec.run(ctx)
    streams_hdr.run(ctx, n_write=(300 if ctx.thorough else 60), n_mut=(3000 if ctx.thorough else 500), fail_prefix="C05")

    for kind, hx in getattr(ctx, "blowups", []):
        ctx.fail("C05:header_" + kind, "Header parsing of a %d-byte mutated header ran into %s (10 s / 1 GiB)" % (len(hx) // 2, kind),
                 {"header_hex": hx})
    bases = base_archives(rng, ctx.thorough)
    jobs, labels = [], []

    def add(label, data, pw, seq=None):
        rnd = [rng.choice(OPS) for _ in range(rng.randrange(1, 5))]
        if rng.random() < 0.2:
            rnd = ["extractall", "extractall"]      # extract twice without reset
        seq = seq or rnd
        jobs.append((data, seq, pw))
        labels.append(label)

    nmut = 60 if ctx.thorough else 12
    for nm, data, pw in bases:
        add(nm + ":intact", data, pw)
        add(nm + ":nopw", data, None)
        add(nm + ":wrongpw", data, "wrong")
        for m in byte_mutations(rng, data, nmut):
            add(nm + ":bytes", m, pw)
        for lab, m in structural_mutations(rng, data, nmut):
            add(nm + ":" + lab, m, pw)
        for lab, m in raw_count_mutations(rng, data):
            add(nm + ":" + lab, m, pw)
        # the coordinated size mutations always meet a decoding call
        for force in (12, 13):
            for lab, m in structural_mutations(rng, data, 3, force=force):
                add(nm + ":" + lab, m, pw, seq=[rng.choice(["extractall", "testzip", "test"]), "extractall"])
    for lab, m in external_mutations(bases[1][1]):
        add("Copy:" + lab, m, None)
    for lab, m in count_vector_bombs():
        add("synthetic:" + lab, m, None, seq=["getnames"])
    for fam, lab, m in coder_property_sweep(rng):
        add(fam + ":" + lab, m, None, seq=[rng.choice(["extractall", "testzip"]), "extractall"])
    for fam, lab, m in aes_property_sweep():
        add(fam + ":" + lab, m, "pw", seq=["getnames", rng.choice(["extractall", "testzip"])])
    # encoded headers that decode to an encoded header again: one that is its own packed stream (Copy coder, no CRC,
    # PackPos pointing back at the record), two that point at each other, and finite nesting three levels deep
    def rec(packpos, size):
        return bytes([0x17, 0x06, packpos, 0x01, 0x09, size, 0x00, 0x07, 0x0B, 0x01, 0x00, 0x01, 0x01, 0x00, 0x0C, size, 0x00, 0x00])
    add("synthetic:encoded-header-1cycle", seal(b"", rec(0, 18)), None, seq=["getnames"])
    add("synthetic:encoded-header-2cycle", seal(rec(18, 18), rec(0, 18)), None, seq=["getnames"])
    add("synthetic:encoded-header-nested3", seal(rec(18, 18) + rec(36, 18) + b"\x01\x00" + bytes(16), rec(0, 18)), None, seq=["getnames"])
    # a packed stream declared far larger than the file, WITH a pack CRC: test() has something to verify and must
    # notice the end of the file instead of counting the declared size down block by block
    for exp in (40, 63):
        big = b"\xff" + struct.pack("<Q", 2 ** exp - 1 if exp == 63 else 2 ** exp)
        hdr = (b"\x01\x04\x06\x00\x01\x09" + big + b"\x0a\x01\x11\x22\x33\x44\x00" +
               b"\x07\x0b\x01\x00\x01\x01\x00\x0c\x05\x00\x00" +
               b"\x05\x01\x11\x05\x00\x61\x00\x00\x00\x00\x00")
        add("synthetic:packsize-2^%d-with-packcrc" % exp, seal(b"hello", hdr), None, seq=["test"])
    # one coder with N inputs and N outputs, N-1 bind pairs: whatever is looked up per stream must not cost a scan of
    # all bind pairs (N^2 steps at open for a header of ~3N bytes)
    import py7zr.archiveinfo as ai_

    def num(v):
        b = io.BytesIO()
        ai_.write_uint64(b, v)
        return b.getvalue()
    for n_ in (2000, 40000):
        folder = b"\x01\x11\x00" + num(n_) + num(n_) + b"\x00\x00" * (n_ - 1)
        hdr = (b"\x01\x04\x06\x00\x01\x09\x00\x00" + b"\x07\x0b\x01\x00" + folder + b"\x0c" + b"\x00" * n_ + b"\x00" + b"\x00" + b"\x00")
        add("synthetic:bindpairs-%d" % n_, seal(b"", hdr), None, seq=["getnames"])
    # an encoded header that DECLARES (and really decodes to) a valid header followed by a gigabyte of zeros: 150 KB of
    # archive; whatever the parser needs of it, the whole of it need not be in memory twice
    import lzma as lz
    rawh = b"\x01\x05\x01\x11\x05\x00\x61\x00\x00\x00\x0e\x01\x80\x00\x00"
    f2 = [{"id": lz.FILTER_LZMA2, "dict_size": 1 << 20}]
    comp = lz.LZMACompressor(format=lz.FORMAT_RAW, filters=f2)
    packedh = comp.compress(rawh) + b"".join(comp.compress(bytes(1 << 20)) for _ in range(1024)) + comp.flush()
    pr = lz._encode_filter_properties(f2[0])
    recb = (b"\x17\x06\x00\x01\x09" + num(len(packedh)) + b"\x00\x07\x0b\x01\x00\x01\x21\x21" + bytes([len(pr)]) + pr +
            b"\x0c" + num(len(rawh) + (1024 << 20)) + b"\x00\x00")
    add("synthetic:encoded-header-1GiB-of-padding", seal(packedh, recb), None, seq=["getnames"])
    # ... and one just inside what is accepted
    comp = lz.LZMACompressor(format=lz.FORMAT_RAW, filters=f2)
    packedh = comp.compress(rawh) + b"".join(comp.compress(bytes(1 << 20)) for _ in range(250)) + comp.flush()
    recb = (b"\x17\x06\x00\x01\x09" + num(len(packedh)) + b"\x00\x07\x0b\x01\x00\x01\x21\x21" + bytes([len(pr)]) + pr +
            b"\x0c" + num(len(rawh) + (250 << 20)) + b"\x00\x00")
    add("synthetic:encoded-header-250MiB-of-padding", seal(packedh, recb), None, seq=["getnames"])
    # a folder decoded by TWO decoder objects (the classic 7-Zip pair BCJ + LZMA) whose packed stream really expands to
    # half a gigabyte while the header declares a thousand bytes: every stage of the chain is asked for no more than
    # is wanted
    f1 = [{"id": lz.FILTER_LZMA1, "dict_size": 1 << 16, "lc": 3, "lp": 0, "pb": 2}]
    comp = lz.LZMACompressor(format=lz.FORMAT_RAW, filters=f1)
    bomb = b"".join(comp.compress(bytes(1 << 20)) for _ in range(512)) + comp.flush()
    p1 = lz._encode_filter_properties(f1[0])
    # coder 0 = LZMA (decoded first), coder 1 = BCJ x86 taking its input from coder 0's output
    folder2 = (b"\x02" + b"\x23\x03\x01\x01" + bytes([len(p1)]) + p1 + b"\x04\x03\x03\x01\x03" + b"\x01\x00")
    hdr2 = (b"\x01\x04\x06\x00\x01\x09" + num(len(bomb)) + b"\x00" + b"\x07\x0b\x01\x00" + folder2 + b"\x0c" + num(1000) + num(1000) + b"\x00" +
            b"\x08\x0a\x01" + struct.pack("<L", zlib.crc32(bytes(1000))) + b"\x00\x00" +
            b"\x05\x01\x11\x05\x00\x61\x00\x00\x00\x00\x00")
    add("synthetic:two-stage-bomb-bcj+lzma", seal(bomb, hdr2), None, seq=["extractall"])
    add("synthetic:two-stage-bomb-bcj+lzma", seal(bomb, hdr2), None, seq=["testzip"])
    # degenerate inputs
    for blob in (b"", b"7z", b"7z\xbc\xaf\x27\x1c", b"7z\xbc\xaf\x27\x1c\x00\x04" + bytes(24), seal(b"", b""), seal(b"", b"\x01"), seal(b"", b"\x17"),
                 seal(b"", b"\x01\x00"), seal(b"", b"\x01\x05"), seal(b"", b"\x01\x04\x06")):
        add("degenerate", blob, None)
    res = sandbox.pmap(_session, jobs, timeout=WALL, mem=MEM)
    # a child that ran into the address-space limit (MemoryError outside the calls, or a codec library that
    # crashes when malloc fails) says nothing about the input by itself: those sessions are repeated under a
    # much higher cap and judged by their peak RSS like every other one
    redo = [i for i, (st, val) in enumerate(res) if st in ("memory", "died")]
    if redo:
        again = sandbox.pmap(_session, [jobs[i] for i in redo], timeout=WALL, mem=8 << 30, workers=4)
        for i, r in zip(redo, again):
            ctx.count("rerun-without-address-space-limit", "%s->%s" % (res[i][0], r[0]))
            res[i] = r
    for (data, seq, pw), lab, (st, val) in zip(jobs, labels, res):
        key = (zlib.crc32(data), tuple(seq), pw)
        family = lab.split(":")[1].split("-")[0] if ":" in lab else lab
        ctx.count("outcome", "%s/%s" % (family.rstrip("0123456789"), st))
        nontrivial = st != "ok" or any(not x.endswith(":ok") and not x.startswith("rss:") for x in (val or []))
        ctx.case(key=key, nontrivial=nontrivial, sample={"label": lab, "calls": seq, "len": len(data), "result": (val if st == "ok" else st)})
        if st == "ok":
            rss = int(val[-1].split(":")[1])
            val = val[:-1]
            for x in val:
                ctx.count("exceptions", x.split(":")[1])
            ctx.count("peak_rss_mib", "<100" if rss < 100 else "<300" if rss < 300 else "<700" if rss < 700 else ">=700")
            if rss < RSS_LIMIT:
                continue
            st = "memory"
            val = "peak RSS %d MiB" % rss
        inp = {"label": lab, "calls": seq, "password": pw, "archive_hex": data.hex() if len(data) <= 4000 else data[:2000].hex() + "...", "archive_len": len(data)}
        if st == "timeout":
            ctx.fail(_sig("spin", lab), "a read-mode call did not return within %d s on a %d-byte input" % (WALL, len(data)), inp)
        elif st == "died":
            ctx.fail(_sig("died", lab), "a read-mode call killed the interpreter (%s) on a %d-byte input" % (val, len(data)), inp)
        elif st == "memory":
            ctx.fail(_sig("memory", lab), "a read-mode call exhausted %d MiB of address space (or killed the interpreter: %s) on a %d-byte input" % (MEM >> 20, val, len(data)), inp)
        else:
            ctx.fail(_sig("crash", lab), "sandboxed worker failed: %s %s" % (st, str(val)[:200]), inp)


def _sig(kind, lab):
    part = lab.split(":", 1)[1] if ":" in lab else lab
    if kind == "died":
        # which codec family the base archive uses identifies the native library that crashed
        return "C05:interpreter_killed:" + (lab.split(":", 1)[0] if ":" in lab else "-")
    if kind == "memory" and (part.startswith("raw-") or part.startswith("struct") or part.startswith("bomb-")):
        return "C05:count_bomb"
    if kind == "spin" and part.startswith("raw-"):
        return "C05:count_spin"
    return "C05:" + kind


def search(ctx, broken):
    pass


def replay(ctx, data):
    f = data.get("failure") or {}
    inp = f.get("input") or {}
    if "archive_hex" in inp and not inp["archive_hex"].endswith("..."):
        r = sandbox.call(_session, (bytes.fromhex(inp["archive_hex"]), inp["calls"], inp.get("password")), timeout=WALL, mem=MEM)
        print("replay:", r)
        return 0 if r[0] == "ok" else 1
    return 0
