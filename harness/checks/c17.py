"""C17 — header values survive storage across their whole legal range."""
import io
import struct

from common import hexs

ID = "C17"
RULE = ("correspondence: write_uint64/read_uint64/write_boolean/read_boolean/write_utf16/read_utf16/_read_name and "
        "FilesInfo property vectors are run on generated inputs and compared line by line with the Lean model's "
        "executable definitions; exploration: the round-trip property itself is evaluated on the implementation and "
        "its output is decoded by the Lean spec decoder. A case is non-trivial when it is a distinct input that is not "
        "a 1-byte NUMBER / empty vector / empty name; distinct cases are counted by canonical op line.")
ASSUMPTIONS = [
    "io.BytesIO, struct, int.to_bytes/from_bytes and str.encode('utf-16LE') behave as modelled (leBytes/ofLE/unitsOf); exercised by the streams",
    "the spec decoder is my reading of docs/archive_format.rst (NUMBER table)",
]


def _ai():
    import py7zr.archiveinfo as ai
    return ai


def impl_num_w(v):
    ai = _ai()
    b = io.BytesIO()
    try:
        ai.write_uint64(b, v)
    except Exception:  # noqa
        return "err"
    return hexs(b.getvalue())


def impl_num_r(data):
    ai = _ai()
    b = io.BytesIO(data)
    try:
        v = ai.read_uint64(b)
    except Exception:  # noqa
        return "err"
    return "ok %d %s" % (v, hexs(b.read()))


def impl_bools_w(bits, ad):
    ai = _ai()
    b = io.BytesIO()
    try:
        ai.write_boolean(b, list(bits), all_defined=ad)
    except Exception:  # noqa
        return "err"
    return hexs(b.getvalue())


def bits_s(bits):
    return "".join("1" if x else "0" for x in bits) or "-"


def impl_bools_r(count, chk, data):
    ai = _ai()
    b = io.BytesIO(data)
    try:
        r = ai.read_boolean(b, count, checkall=chk)
    except Exception:  # noqa
        return "err"
    return "ok %s %s" % (bits_s(r), hexs(b.read()))


def nats_s(ns):
    return ",".join(str(n) for n in ns) or "-"


def impl_utf16_w(cs):
    ai = _ai()
    b = io.BytesIO()
    try:
        ai.write_utf16(b, "".join(chr(c) for c in cs))
    except Exception:  # noqa
        return "err"
    return hexs(b.getvalue())


def impl_utf16_r(data, name=False):
    ai = _ai()
    b = io.BytesIO(data)
    try:
        s = ai.read_utf16(b)
        if name:
            s = s.replace("\\", "/")
    except Exception:  # noqa
        return "err"
    return "ok %s %s" % (nats_s([ord(c) for c in s]), hexs(b.read()))


# ------------------------------------------------------------------ generators
def number_values(rng, thorough):
    vals = set()
    for k in range(65):
        for d in (-1, 0, 1):
            v = (1 << k) + d
            if 0 <= v < (1 << 64):
                vals.add(v)
    # every (byte-length, leading-byte) class with low bytes zero / ones / positional / random
    for nbytes in range(1, 9):
        for top in range(256):
            for low in ("zero", "ones", "pos", "rand", "rand2"):
                if nbytes == 1:
                    lowv = 0
                elif low == "zero":
                    lowv = 0
                elif low == "ones":
                    lowv = (1 << (8 * (nbytes - 1))) - 1
                elif low == "pos":
                    lowv = int.from_bytes(bytes(range(1, nbytes)), "little")
                else:
                    lowv = rng.getrandbits(8 * (nbytes - 1))
                vals.add((top << (8 * (nbytes - 1))) | lowv)
    n_small = (1 << 20) if thorough else (1 << 16)
    vals.update(range(n_small))
    for _ in range(20000 if thorough else 4000):
        vals.add(rng.getrandbits(rng.choice([7, 8, 14, 15, 16, 21, 28, 35, 42, 49, 55, 56, 57, 63, 64])))
    return sorted(vals)


def scalar(rng):
    k = rng.random()
    if k < 0.35:
        return rng.randrange(0x20, 0x7F)
    if k < 0.45:
        return rng.randrange(1, 0x20)
    if k < 0.75:
        c = rng.randrange(0x80, 0x10000)
        while 0xD800 <= c < 0xE000:
            c = rng.randrange(0x80, 0x10000)
        return c
    if k < 0.8:
        return rng.choice([0xFFFF, 0xFFFE, 0x100, 0x200, 0xFF00, 0x5C, 0x2F, 0xD7FF, 0xE000, 0x10000, 0x10FFFF])
    return rng.randrange(0x10000, 0x110000)


def run(ctx):
    rng = ctx.rng
    ctx.lean_obligations("SevenZ.Props.C17")
    ai = _ai()

    # ---- num.w : implementation writer vs model writer, and round trip on the implementation
    vals = number_values(rng, ctx.thorough)
    lines, outs, classes = [], [], []
    spec_lines, spec_expect = [], []
    for v in vals:
        o = impl_num_w(v)
        lines.append("num.w %d" % v)
        outs.append(o)
        classes.append("len%d" % (len(o) // 2))
        enc = bytes.fromhex(o) if o not in ("-", "err") else b""
        # direct property on the implementation
        back = impl_num_r(enc + b"\xa5")
        ok = (back == "ok %d a5" % v) and len(enc) <= 9
        ctx.case(key=("num", v), nontrivial=v >= 0x80)
        if not ok:
            ctx.fail("C17:number_roundtrip", "write_uint64/read_uint64 do not round-trip or exceed 9 bytes", {"value": v, "encoded": o, "read_back": back})
        spec_lines.append("num.s %sa5" % o)
        spec_expect.append("ok %d a5" % v)
    ctx.correspond("num.w", lines, outs, classes)
    # the implementation's bytes decoded by the decoder written from the specification
    k = len(spec_lines) if ctx.thorough else min(len(spec_lines), 120000)
    sel = list(range(len(spec_lines)))
    if k < len(sel):
        sel = sorted(rng.sample(sel, k))
    model = ctx.run_driver([spec_lines[i] for i in sel])
    st = ctx.streams.setdefault("num.spec-decodes-impl-output", {"cases": 0, "disagreements": 0})
    st["cases"] += len(sel)
    for i, m in zip(sel, model):
        if m != spec_expect[i]:
            st["disagreements"] += 1
            ctx.fail("C17:number_write_spec", "specification decoder disagrees with write_uint64 output", {"value": vals[i], "encoded": outs[i], "spec": m})
            break

    # ---- num.r : every first byte x tails (long, short, empty), conforming non-minimal encodings
    lines, outs, classes = [], [], []
    slines, souts = [], []
    for first in range(256):
        n_extra = ai_leading_ones(first)
        tails = [b"", bytes(8), b"\xff" * 9, bytes(range(1, 10))]
        for _ in range(12 if ctx.thorough else 5):
            tails.append(rng.randbytes(9))
        for cut in range(0, 9):
            tails.append(rng.randbytes(cut))
        for t in tails:
            data = bytes([first]) + t
            o = impl_num_r(data)
            lines.append("num.r " + data.hex())
            outs.append(o)
            classes.append("lead%d%s" % (n_extra, "" if len(t) >= n_extra else "-short"))
            ctx.case(key=("numr", data), nontrivial=n_extra > 0)
            if len(t) >= n_extra:
                slines.append("num.s " + data.hex())
                souts.append(o)
    ctx.correspond("num.r", lines, outs, classes)
    ctx.correspond("num.r-vs-spec", slines, souts)

    # ---- crcs : read_crcs / write_crcs (theorems crcs_roundtrip, crcs_short_refused)
    ai = _ai()
    lines, outs, classes = [], [], []
    rl, ro, rc = [], [], []
    edge = [0, 1, 0xFF, 0x100, 0xFFFF, 0x10000, 0x7FFFFFFF, 0x80000000, 0xFFFFFFFE, 0xFFFFFFFF, 0x01020304]
    for n in list(range(0, 9)) + ([64, 257] if ctx.thorough else [33]):
        for rep in range(6 if ctx.thorough else 3):
            crcs = [edge[(rep + i) % len(edge)] if rep % 2 == 0 else rng.getrandbits(32) for i in range(n)]
            b = io.BytesIO()
            try:
                ai.write_crcs(b, crcs)
                enc = hexs(b.getvalue())
            except Exception:  # noqa
                enc = "err"
            lines.append("crcs.w " + (",".join(map(str, crcs)) if crcs else "-"))
            outs.append(enc)
            classes.append("n%d" % min(n, 9))
            ctx.case(key=("crcsw", tuple(crcs)), nontrivial=n > 0)
            data = b.getvalue()
            for extra, cut in ((b"", 0), (b"\xa5\x5a", 0), (b"", 1), (b"", 3), (b"", 4)):
                d = data + extra
                if cut:
                    if len(d) < cut:
                        continue
                    d = d[:-cut]
                f = io.BytesIO(d)
                try:
                    got = ai.read_crcs(f, n)
                    o = "ok %s %s" % (",".join(map(str, got)) if got else "-", hexs(f.read()))
                except Exception:  # noqa
                    o = "err"
                rl.append("crcs.r %d %s" % (n, hexs(d)))
                ro.append(o)
                rc.append("short" if cut and n else ("tail" if extra else "exact"))
                ctx.case(key=("crcsr", n, d), nontrivial=n > 0)
    ctx.correspond("crcs.w", lines, outs, classes)
    ctx.correspond("crcs.r", rl, ro, rc)

    # ---- bools
    lines, outs, classes = [], [], []
    rl, ro, rc = [], [], []
    maxlen = 131
    for n in range(maxlen):
        pats = [[True] * n, [False] * n]
        for hole in range(n):
            p = [True] * n
            p[hole] = False
            pats.append(p)
            if ctx.thorough:
                q = [False] * n
                q[hole] = True
                pats.append(q)
        for _ in range(6 if ctx.thorough else 3):
            pats.append([rng.random() < 0.5 for _ in range(n)])
        if not ctx.thorough and n > 40:
            pats = pats[:2] + rng.sample(pats[2:], min(len(pats) - 2, 12))
        for p in pats:
            for ad in (False, True):
                o = impl_bools_w(p, ad)
                lines.append("bools.w %s %d" % (bits_s(p), ad))
                outs.append(o)
                classes.append("all" if all(p) else "holes")
                enc = bytes.fromhex(o) if o not in ("-", "err") else b""
                back = impl_bools_r(n, ad, enc + b"\x5a")
                ctx.case(key=("bools", bits_s(p), ad), nontrivial=n > 0)
                if back != "ok %s 5a" % bits_s(p):
                    ctx.fail("C17:bools_roundtrip", "write_boolean/read_boolean do not round-trip", {"bits": bits_s(p), "all_defined": ad, "encoded": o, "read_back": back})
                if not ad and len(enc) != -(-n // 8):
                    ctx.fail("C17:bools_length", "bit vector is not ceil(n/8) bytes", {"bits": bits_s(p), "encoded": o})
    ctx.correspond("bools.w", lines, outs, classes)
    for n in list(range(0, 20)) + [63, 64, 65, 129, 130]:
        for _ in range(8 if ctx.thorough else 3):
            for chk in (False, True):
                need = -(-n // 8) + (1 if chk else 0)
                for ln in (need + 1, need, max(0, need - 1), 0):
                    data = rng.randbytes(ln)
                    if chk and data and rng.random() < 0.5:
                        data = b"\x00" + data[1:]
                    rl.append("bools.r %d %d %s" % (n, chk, hexs(data)))
                    ro.append(impl_bools_r(n, chk, data))
                    rc.append("short" if ln < need else "enough")
    ctx.correspond("bools.r", rl, ro, rc)

    # ---- utf16
    lines, outs, classes = [], [], []
    rl, ro = [], []
    names = [[0x61], [0x1F600], [1], [0x1F], [0x100], [0x61, 0x100], [0xFFFF], [0xFFFE], [0x5C, 0x61, 0x5C], [0x63, 0x3A, 0x61]]
    lens = [1, 2, 3, 5, 8, 13, 40, 255, 256, 1000, 4096] if ctx.thorough else [1, 2, 3, 7, 31, 256, 4096]
    for ln in lens:
        for _ in range(6 if ctx.thorough else 3):
            names.append([scalar(rng) for _ in range(ln)])
    for _ in range(400 if ctx.thorough else 150):
        names.append([scalar(rng) for _ in range(rng.randrange(1, 24))])
    for cs in names:
        o = impl_utf16_w(cs)
        lines.append("utf16.w " + nats_s(cs))
        outs.append(o)
        classes.append("astral" if any(c >= 0x10000 for c in cs) else "bmp")
        enc = bytes.fromhex(o) if o not in ("-", "err") else b""
        back = impl_utf16_r(enc + b"\x77")
        ctx.case(key=("utf16", tuple(cs)), nontrivial=len(cs) > 1)
        if back != "ok %s 77" % nats_s(cs):
            ctx.fail("C17:utf16_roundtrip", "write_utf16/read_utf16 do not round-trip", {"name": cs, "encoded": o[:200], "read_back": back[:200]})
        rl.append("utf16.name " + hexs(enc + b"\x01\x02"))
        ro.append(impl_utf16_r(enc + b"\x01\x02", name=True))
    ctx.correspond("utf16.w", lines, outs, classes)
    # reader on arbitrary bytes: odd lengths, lone surrogates, missing terminator
    for _ in range(600 if ctx.thorough else 200):
        k = rng.randrange(0, 14)
        data = bytearray()
        for _ in range(k):
            u = rng.choice([rng.randrange(1, 0x10000), rng.randrange(0xD800, 0xE000), rng.randrange(0x20, 0x7F)])
            data += struct.pack("<H", u)
        end = rng.choice([b"\x00\x00", b"\x00\x00", b"", b"\x00", b"\x41"])
        data += end + rng.randbytes(rng.randrange(0, 3))
        rl.append("utf16.name " + hexs(bytes(data)))
        ro.append(impl_utf16_r(bytes(data), name=True))
    ctx.correspond("utf16.r", rl, ro)

    try:
        import checks.c17_header as hdr
        hdr.run(ctx)
    except ImportError:
        pass


def ai_leading_ones(b):
    n = 0
    m = 0x80
    while m and (b & m):
        n += 1
        m >>= 1
    return n


def replay(ctx, data):
    f = data.get("failure") or {}
    print("replay input:", f.get("input"))
    inp = f.get("input") or {}
    if "value" in inp:
        print("write_uint64 ->", impl_num_w(inp["value"]))
    return 0
