"""C04 — damage is detected: no success with different content."""
import io
import os
import signal
import struct
import zlib

import arclib
import refwriter
import sandbox
import checks.c06 as c06

ID = "C04"
RULE = ("crc stream (zlib.crc32 / calculate_crc32 with block sizes 1,2,3,7,1MiB vs the Lean shift-register model) + exploration: "
        "archives from py7zr and the reference writer (Copy/LZMA2/LZMA/BZip2/Deflate/ZStandard/PPMd, +/-AES, raw and encoded "
        "header, 1..4 folders, incl. a member whose CRC-32 is exactly 0 and members in folder-CRC-only layouts); damage: ALL "
        "single-bit flips for archives <= 420 bytes (quick: 3 archives; thorough: 12), sampled byte overwrites, every "
        "truncation length, bursts <= 32 bits, block swaps inside the packed area, appended junk; each damaged file is "
        "opened and extracted (stream mode) and its outcome compared member by member with the pristine map, and "
        "test()/testzip() are evaluated on the same bytes. Non-trivial = damaged input that is still accepted as a 7z "
        "signature; distinct by damaged bytes.")
ASSUMPTIONS = ["beyond 32-bit bursts CRC detection is probabilistic (2^-32): a reported success with different content would be shown with its collision",
               "behaviour of third-party decoders on corrupt input is a parameter"]


def crc0_suffix(prefix):
    """4 bytes that make crc32(prefix + suffix) == 0"""
    # standard trick: append the current register (complemented CRC) little endian
    c = zlib.crc32(prefix) & 0xFFFFFFFF
    # find suffix s with crc32(prefix+s)==0 by solving through the linear structure: brute force over the table-driven inverse
    target = 0xFFFFFFFF          # register value before final xor that yields CRC 0
    # reverse CRC: walk the register backwards 4 bytes
    table = []
    for i in range(256):
        r = i
        for _ in range(8):
            r = (r >> 1) ^ 0xEDB88320 if r & 1 else r >> 1
        table.append(r)
    rev = {t >> 24: (i, t) for i, t in enumerate(table)}
    reg = target
    idxs = []
    for _ in range(4):
        i, t = rev[reg >> 24]
        reg = ((reg ^ t) << 8) & 0xFFFFFFFF
        idxs.append(i)
    # now run forward from the current register choosing bytes so that the table indices match
    cur = c ^ 0xFFFFFFFF
    out = bytearray()
    for i in reversed(idxs):
        b = (cur ^ i) & 0xFF
        out.append(b)
        cur = (cur >> 8) ^ table[i]
    s = bytes(out)
    assert zlib.crc32(prefix + s) & 0xFFFFFFFF == 0, "crc0 construction failed"
    return s


def base_archives(rng, thorough):
    out = []
    zero = b"zero-crc-member:" + rng.randbytes(20)
    zero += crc0_suffix(zero)
    members = [("plain.txt", b"hello damage detection " * 3), ("zero.bin", zero), ("tail.txt", rng.randbytes(40))]
    small = [("a", b"alpha-" * 4), ("z", zero[:]), ("b", rng.randbytes(24))]
    fams = [("Copy", [{"id": arclib.FILTER_COPY}]), ("LZMA2", [{"id": arclib.FILTER_LZMA2, "preset": 1}]), ("Deflate", [{"id": arclib.FILTER_DEFLATE}])]
    if thorough:
        fams += [("LZMA", [{"id": arclib.FILTER_LZMA, "preset": 1}]), ("BZip2", [{"id": arclib.FILTER_BZIP2}]), ("ZStandard", [{"id": arclib.FILTER_ZSTD, "level": 1}]),
                 ("PPMd", [{"id": arclib.FILTER_PPMD, "order": 4, "mem": 16}]), ("X86+LZMA2", [{"id": arclib.FILTER_X86}, {"id": arclib.FILTER_LZMA2, "preset": 1}])]
    for nm, f in fams:
        out.append((nm + "/raw", arclib.write_archive(small, filters=f, header="raw"), small, None, True))
    out.append(("LZMA2/encoded", arclib.write_archive(members, filters=fams[1][1]), members, None, False))
    out.append(("Copy+AES/raw", arclib.write_archive(small, filters=arclib.with_aes(fams[0][1]), password="pw", header="raw"), small, "pw", False))
    out.append(("LZMA2+AES/enc-header", arclib.write_archive(small, filters=arclib.with_aes(fams[1][1]), password="pw", header="encrypted"), small, "pw", False))
    two = arclib.write_archive(small[:2], filters=fams[0][1], header="raw")
    two = arclib.write_archive([small[2]], filters=fams[1][1], append_to=two)
    out.append(("multi-folder", two, small, None, thorough))
    # reference-writer layouts: folder-level CRC only, packed CRCs, four folders
    logical = [{"name": n, "kind": "file", "data": d, "attr": c06.FILE_ATTR, "mtime": 130000000000000000, "ctime": None, "atime": None} for n, d in members + [("four", b"4444")]]
    for feat, lay in (("ref-folder-crc", {"folders": [("copy", [0]), ("lzma2", [1]), ("copy", [2]), ("deflate", [3])], "crc_place": "folder"}),
                      ("ref-packcrc-solid", {"folders": [("copy", [0, 1, 2, 3])], "crc_place": "sub", "packcrc": True})):
        full = {"nums_omitted": True, "packcrc": False, "packpos": 0, "dummy": 0, "emptyfile_vector": True, "header": "raw", "password": None, "nonminimal": False}
        full.update(lay)
        out.append((feat, refwriter.build(logical, full, rng), members + [("four", b"4444")], None, False))
    return out


def damages(rng, label, data, exhaustive, thorough):
    out = []
    if exhaustive and len(data) <= 420:
        for pos in range(len(data)):
            for bit in range(8):
                b = bytearray(data)
                b[pos] ^= 1 << bit
                out.append(("flip", bytes(b)))
    else:
        for _ in range(400 if thorough else 120):
            pos = rng.randrange(len(data))
            b = bytearray(data)
            b[pos] ^= 1 << rng.randrange(8)
            out.append(("flip", bytes(b)))
    for _ in range(150 if thorough else 50):
        pos = rng.randrange(len(data))
        b = bytearray(data)
        b[pos] = rng.randrange(256)
        if bytes(b) != data:
            out.append(("overwrite", bytes(b)))
    step = 1 if (thorough or len(data) < 300) else 3
    for n in range(0, len(data), step):
        out.append(("truncate", data[:n]))
    for _ in range(100 if thorough else 30):
        pos = rng.randrange(len(data) - 4)
        w = rng.randrange(1, 5)
        b = bytearray(data)
        b[pos:pos + w] = rng.randbytes(w)
        if bytes(b) != data:
            out.append(("burst", bytes(b)))
    ofs, = struct.unpack("<Q", data[12:20])
    if ofs >= 16:
        for _ in range(40 if thorough else 12):
            k = rng.choice([1, 4, 8])
            i, j = sorted(rng.sample(range(32, 32 + ofs - k), 2))
            if j - i >= k:
                b = bytearray(data)
                b[i:i + k], b[j:j + k] = b[j:j + k], b[i:i + k]
                if bytes(b) != data:
                    out.append(("swap", bytes(b)))
    out.append(("extend", data + rng.randbytes(17)))
    out.append(("insert", data[:40] + b"\x00" + data[40:]))
    out.append(("remove", data[:40] + data[41:]))
    return out


class _Alarm(Exception):
    pass


def _batch(job):
    cases, password, members = job
    import py7zr
    want = {n: d for n, d in members}

    def on_alarm(sig, frm):
        raise _Alarm()
    signal.signal(signal.SIGALRM, on_alarm)
    out = []
    kw = {"password": password} if password else {}
    import tempfile
    scratch_dir = tempfile.mkdtemp(prefix="verif_c04s_")
    scratch = os.path.join(scratch_dir, "a.7z")
    # the two dearer entry points (worker processes; a callback's reporter thread) are evaluated on a sample of the cases
    every = 12
    for ci, (kind, data) in enumerate(cases):
        res = {}
        # extraction
        signal.alarm(8)
        try:
            fac = py7zr.io.BytesIOFactory(1 << 24)
            with py7zr.SevenZipFile(io.BytesIO(data), "r", **kw) as z:
                names = z.getnames()
                z.extractall(factory=fac)
            got = {}
            for n, p in fac.products.items():
                p.seek(0)
                got[n] = p.read()
            wrong = [n for n in names if n not in want] + [n for n, b in got.items() if want.get(n) != b]
            res["extract"] = "ok" if not wrong else "WRONG:" + ",".join(sorted(set(wrong)))[:80]
            res["complete"] = sorted(got) == sorted(want) and names == [n for n, _ in members]
        except _Alarm:
            res["extract"] = "timeout"
        except Exception as e:  # noqa
            res["extract"] = "exc:" + type(e).__name__
        finally:
            signal.alarm(0)
        # integrity entry points on the same bytes
        for call in ("test", "testzip", "testzip_path", "testzip_mp", "extract_callback"):
            if call in ("testzip_mp", "extract_callback") and ci % every:
                continue
            signal.alarm(8)
            try:
                if call == "extract_callback":
                    # extraction with a progress callback attached: the verdict is the call's, not the callback's
                    from py7zr.callbacks import ExtractCallback

                    class _Cb(ExtractCallback):
                        def report_start_preparation(self): pass
                        def report_start(self, p, b): pass
                        def report_update(self, b): pass
                        def report_end(self, p, b): pass
                        def report_warning(self, m): pass
                        def report_postprocess(self): pass
                    fac2 = py7zr.io.BytesIOFactory(1 << 24)
                    with py7zr.SevenZipFile(io.BytesIO(data), "r", **kw) as z:
                        z.extractall(factory=fac2, callback=_Cb())
                    got2 = {}
                    for n, p_ in fac2.products.items():
                        p_.seek(0)
                        got2[n] = p_.read()
                    if not (all(want.get(n) == b for n, b in got2.items()) and sorted(got2) == sorted(want)):
                        res[call] = "WRONG"      # returned normally, delivered something else than what was archived
                        continue
                    r = None
                elif call == "testzip_mp":
                    with open(scratch, "wb") as f_:
                        f_.write(data)
                    with py7zr.SevenZipFile(scratch, "r", mp=True, **kw) as z:
                        r = z.testzip()
                elif call == "testzip_path":
                    # opened by name: multi-folder archives take the parallel path
                    with open(scratch, "wb") as f_:
                        f_.write(data)
                    with py7zr.SevenZipFile(scratch, "r", **kw) as z:
                        r = z.testzip()
                else:
                    with py7zr.SevenZipFile(io.BytesIO(data), "r", **kw) as z:
                        r = getattr(z, call)()
                res[call] = "good" if r in (None, True) else "bad"
            except _Alarm:
                res[call] = "timeout"
            except Exception as e:  # noqa
                res[call] = "exc:" + type(e).__name__
            finally:
                signal.alarm(0)
        out.append(res)
    import shutil as _sh
    _sh.rmtree(scratch_dir, ignore_errors=True)
    return out


def run(ctx):
    rng = ctx.rng
    ctx.lean_obligations("SevenZ.Props.C04")
    # ---- crc stream
    from py7zr.helpers import calculate_crc32
    lines, outs = [], []
    for _ in range(600 if ctx.thorough else 200):
        n = rng.choice([0, 1, 2, 3, 4, 7, 8, 9, 31, 64, 100])
        d = rng.randbytes(n)
        v = rng.choice([0, 0, 1, 0xFFFFFFFF, rng.getrandbits(32)])
        lines.append("crc.u %d %s" % (v, d.hex() or "-"))
        outs.append(str(zlib.crc32(d, v) & 0xFFFFFFFF))
        bs = rng.choice([1, 2, 3, 7, 1 << 20])
        lines.append("crc.c %d %d %s" % (v, bs, d.hex() or "-"))
        outs.append(str(calculate_crc32(d, v, bs)))
    ctx.correspond("crc", lines, outs)

    bases = base_archives(rng, ctx.thorough)
    jobs, meta = [], []
    for label, data, members, pw, exhaustive in bases:
        # intact archive first: integrity entry points report no damage, extraction complete
        cases = [("intact", data)] + damages(rng, label, data, exhaustive, ctx.thorough)
        for i in range(0, len(cases), 60):
            jobs.append((cases[i:i + 60], pw, members))
            meta.append((label, cases[i:i + 60]))
    res = sandbox.pmap(_batch, jobs, timeout=600, mem=3 << 30)
    for (label, cases), (st, val) in zip(meta, res):
        if st != "ok":
            ctx.fail("C04:batch_" + st, "a batch of damaged archives did not complete: %s %s" % (st, str(val)[:200]), {"archive": label})
            continue
        for (kind, data), r in zip(cases, val):
            ctx.case(key=zlib.crc32(data) ^ len(data), nontrivial=data[:6] == b"7z\xbc\xaf\x27\x1c" and kind != "intact")
            ctx.count("outcome/" + kind, r["extract"].split(":")[0] + ("" if r["extract"] != "ok" else ("-complete" if r.get("complete") else "-partial")))
            inp = {"archive": label, "damage": kind, "archive_hex": data.hex() if len(data) < 3000 else None, "result": r}
            if kind == "intact":
                if r["extract"] != "ok" or not r.get("complete") or r["test"] != "good" or r["testzip"] != "good" or r.get("testzip_path") != "good":
                    ctx.fail("C04:intact_reported_damaged", "an intact archive is not read completely / is reported damaged: %s" % r, inp)
                continue
            if r["extract"].startswith("WRONG"):
                ctx.fail("C04:wrong_content", "a damaged archive (%s) was read with success but different content: %s" % (kind, r["extract"]), inp)
            if r["extract"] == "timeout" or "timeout" in (r["test"], r["testzip"]):
                ctx.fail("C04:hang", "reading a damaged archive did not return", inp)
            # test()/testzip() must never certify an archive whose members do not extract to their original bytes
            extract_fine = r["extract"] == "ok" and r.get("complete")
            if r["testzip"] == "good" and not extract_fine:
                ctx.fail("C04:testzip_certifies_damaged", "testzip() reports no damage but extraction gives %s" % r["extract"], inp)
            if r.get("testzip_path") == "good" and not extract_fine:
                ctx.fail("C04:testzip_certifies_damaged", "testzip() on the archive opened by name reports no damage but extraction gives %s" % r["extract"], inp)
            if r.get("testzip_mp") == "good" and not extract_fine:
                ctx.fail("C04:testzip_certifies_damaged", "testzip() with worker processes (mp=True) reports no damage but extraction gives %s" % r["extract"], inp)
            if r.get("extract_callback") == "WRONG":
                ctx.fail("C04:silent_success", "extractall() with a progress callback returns normally and delivers different content (plain extraction: %s)" % r["extract"], inp)
            if r["test"] == "good" and r["testzip"] == "bad" and False:
                pass


def replay(ctx, data):
    print(str(data.get("failure"))[:2000])
    return 0
