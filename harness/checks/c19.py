"""C19 — the command line mirrors the library and its exit status tells the truth."""
import io
import os
import shutil
import subprocess
import sys
import tempfile

import arclib
import sandbox
import trees

ID = "C19"
RULE = ("volume stream: size strings (digits x unit spellings x malformed variants) through Cli._check_volumesize_valid/"
        "_volumesize_unitconv vs the Lean model; command line: 'python -m py7zr' subprocesses for c/x/l/a/t with generated "
        "trees, every -v unit spelling, damaged/encrypted/unsupported archives; the expected exit status comes from "
        "performing the same operation through the library in a sandboxed child. Non-trivial = a subprocess run whose "
        "expected status is non-zero or which compares a whole tree; distinct by argv+input label.")
ASSUMPTIONS = ["argparse, the interpreter's exit status for uncaught exceptions (1) and multivolumefile are runtime parameters"]

PY = "/venv/bin/python"


def enc(s):
    return ",".join(str(ord(c)) for c in s) or "-"


def run_cli(args, cwd, timeout=120, stdin=None):
    env = dict(os.environ)
    env["PYTHONPATH"] = "/repo"
    try:
        r = subprocess.run([PY, "-m", "py7zr"] + args, cwd=cwd, capture_output=True, text=True, timeout=timeout, env=env,
                           input=stdin)
        return r.returncode, r.stdout, r.stderr
    except subprocess.TimeoutExpired:
        return "timeout", "", ""


def _cli_job(a):
    args, cwd = a
    return run_cli(args, cwd)


def _lib_test(path):
    import py7zr
    if not py7zr.is_7zfile(path):
        return "not7z"
    with open(path, "rb") as f:
        a = py7zr.SevenZipFile(f)
        return "ok" if a.testzip() is None else "bad"


def _truth(a):
    """Ground truth by sequential in-memory extraction compared with the pristine members."""
    data, members, password = a
    names, content = arclib.read_archive(data, password=password)
    want = {n: d for n, d in members}
    if names != [n for n, _ in members]:
        return "differs"
    for n, d in want.items():
        if content.get(n) != d:
            return "differs"
    return "same"


def _lib_extract(a):
    import py7zr
    path, out = a
    if not py7zr.is_7zfile(path):
        return "not7z"
    with py7zr.SevenZipFile(path, "r") as z:
        z.extractall(out)
    return "ok"


def volume_strings(rng, thorough):
    out = set()
    nums = ["0", "1", "7", "64", "1000", "65536", "007", "123456789012", "99999999999999999999"]
    for _ in range(200 if thorough else 40):
        nums.append(str(rng.randrange(0, 10 ** rng.randrange(1, 12))))
    units = ["", "b", "k", "m", "g", "B", "K", "M", "G"]
    for n in nums:
        for u in units:
            out.add(n + u)
    bad = ["", "k", "10kb", "10 k", " 10k", "10k ", "1.5k", "-5", "+5", "10t", "10T", "0x10", "1e3", "10\n", "10k\n", "10\n\n",
           "10k\nk", "١٠", "10K", "10K", "１０", "10Kı", "kk", "10bk", "10g1"]
    out.update(bad)
    for _ in range(300 if thorough else 60):
        out.add("".join(rng.choice("0123456789bkmgBKMG .-\n") for _ in range(rng.randrange(0, 6))))
    return sorted(out)


def run(ctx):
    rng = ctx.rng
    ctx.lean_obligations("SevenZ.Props.C19")
    from py7zr.cli import Cli
    cli = Cli()

    # ---- volume-size decision logic vs model, and vs what the help promises
    l1, o1, l2, o2 = [], [], [], []
    for s in volume_strings(rng, ctx.thorough):
        l1.append("cli.check " + enc(s))
        o1.append("1" if cli._check_volumesize_valid(s) else "0")
        l2.append("cli.conv 1 " + enc(s))
        try:
            o2.append(str(cli._volumesize_unitconv(s)))
        except KeyError:
            o2.append("KeyError")
        described = len(s) > 0 and s.rstrip("bkmgBKMG").isascii() and s.rstrip("bkmgBKMG").isdigit() and len(s) - len(s.rstrip("bkmgBKMG")) <= 1
        ctx.case(key=("vol", s), nontrivial=described)
        if described:
            digits = s.rstrip("bkmgBKMG")
            unit = s[len(digits):]
            mult = {"": 1, "b": 1, "k": 1024, "m": 1024 ** 2, "g": 1024 ** 3}[unit.lower()]
            if o1[-1] != "1" or o2[-1] != str(int(digits) * mult):
                sig = "C19:volume_no_unit" if unit == "" else "C19:volume_size"
                ctx.fail(sig, "a volume size the help describes ({Size}[b|k|m|g]) is not accepted/converted",
                         {"size": s, "valid": o1[-1], "converted": o2[-1]})
    ctx.correspond("cli.check", l1, o1)
    ctx.correspond("cli.conv", l2, o2)

    tmp = tempfile.mkdtemp(prefix="verif_c19_")
    try:
        _e2e(ctx, rng, tmp)
    finally:
        trees.make_writable(tmp)
        shutil.rmtree(tmp, ignore_errors=True)


def _e2e(ctx, rng, tmp):
    import py7zr
    # ---- c then x reproduces the tree; l lists what the library reports; a appends without disturbing
    ntrees = 12 if ctx.thorough else 6
    for t in range(ntrees):
        work = os.path.join(tmp, "t%d" % t)
        os.makedirs(work)
        spec = trees.gen_tree(rng, links=(t % 2 == 0), maxentries=10)
        src = os.path.join(work, "src")
        trees.materialise(src, spec, rng)
        # archive name with or without .7z; without it the command adds the suffix to the name as given, dots and all
        arcname = ["out.7z", "out", "snap.v1.7z", "rel-1.0", "site.tar", "v2.1/pkg.x86"][t % 6]
        arcfile = arcname if arcname.endswith(".7z") else arcname + ".7z"
        if "/" in arcname:
            os.makedirs(os.path.join(work, os.path.dirname(arcname)))
        rc, so, se = run_cli(["c", arcname, "src"], work)
        ctx.case(key=("c", t), nontrivial=True, sample={"argv": ["c", arcname, "src"], "entries": len(spec), "rc": rc})
        if rc != 0:
            ctx.fail("C19:create_status", "'c' failed on a plain tree", {"tree": _spec_repr(spec), "rc": rc, "stderr": se[-400:]})
            continue
        arc = os.path.join(work, arcfile)
        if not os.path.isfile(arc):
            ctx.fail("C19:create_target", "'c %s' reports success and the archive %s does not exist" % (arcname, arcfile),
                     {"argv": ["c", arcname, "src"], "files": sorted(os.listdir(os.path.dirname(arc)))[:10]})
            continue
        if t % 2 == 0:
            rc, so, se = run_cli(["x", arcfile, "dest"], work)
            dest = os.path.join(work, "dest", "src")
        else:
            os.makedirs(os.path.join(work, "cwdout"))
            rc, so, se = run_cli(["x", arc], os.path.join(work, "cwdout"))
            dest = os.path.join(work, "cwdout", "src")
        if rc != 0:
            ctx.fail("C19:extract_status", "'x' failed on an archive made by 'c'", {"tree": _spec_repr(spec), "rc": rc, "stderr": se[-400:]})
            continue
        d = trees.diff_snapshots(trees.snapshot(src), trees.snapshot(dest))
        if d:
            ctx.fail("C19:c_x_tree", "'c' followed by 'x' does not reproduce the tree", {"tree": _spec_repr(spec), "diff": d[:6]})
        # l vs library
        rc, so, se = run_cli(["l", arcfile], work)
        with py7zr.SevenZipFile(arc, "r") as z:
            libnames = z.getnames()
        listed = [ln[53:] for ln in so.splitlines()[3:-1]] if rc == 0 else None
        ctx.case(key=("l", t), nontrivial=True)
        if rc != 0 or listed != libnames:
            if not libnames and rc != 0:
                ctx.fail("C19:list_empty_archive", "'l' fails on an archive without members", {"rc": rc, "stderr": se[-300:]})
            else:
                ctx.fail("C19:list_members", "'l' does not list the members the library reports",
                         {"rc": rc, "listed": listed, "library": libnames, "stderr": se[-300:]})
        # a: append a second tree, earlier members undisturbed
        spec2 = [("extra_%d" % t, "file", (arclib.gen_content(rng, 50), 0o644))]
        trees.materialise(os.path.join(work, "more"), spec2, rng)
        rc, so, se = run_cli(["a", arcfile, "more"], work)
        ctx.case(key=("a", t), nontrivial=True)
        if rc != 0:
            ctx.fail("C19:append_status", "'a' failed", {"rc": rc, "stderr": se[-400:]})
            continue
        rc, so, se = run_cli(["x", arcfile, "dest2"], work)
        if rc != 0:
            sig = "C19:append_onto_streamless_base" if _has_dir_between_files(spec) else "C19:append_then_extract"
            ctx.fail(sig, "'x' fails after 'c' then 'a'", {"tree": _spec_repr(spec), "rc": rc, "stderr": se[-400:]})
            continue
        d = trees.diff_snapshots(trees.snapshot(src), trees.snapshot(os.path.join(work, "dest2", "src")))
        d += trees.diff_snapshots(trees.snapshot(os.path.join(work, "more")), trees.snapshot(os.path.join(work, "dest2", "more")))
        if d:
            sig = "C19:append_onto_streamless_base" if _has_dir_between_files(spec) else "C19:append_disturbs"
            ctx.fail(sig, "'a' disturbed earlier members or lost new ones", {"tree": _spec_repr(spec), "diff": d[:6]})

    # ---- multi-volume creation with every unit spelling
    work = os.path.join(tmp, "vol")
    os.makedirs(work)
    trees.materialise(os.path.join(work, "src"), [("big", "file", (rng.randbytes(9000), 0o644)), ("small", "file", (b"x" * 10, 0o644))], rng)
    jobs = []
    sizes = ["4096", "4k", "4K", "4096b", "4096B", "1m", "1M", "1g", "1G", "100", "64"]
    for i, s in enumerate(sizes):
        jobs.append((["c", "-v", s, "v%d.7z" % i, "src"], work))
    res = sandbox.pmap(_cli_job, jobs, timeout=180, mem=None)
    for (args, _), (st, val), i in zip(jobs, res, range(len(jobs))):
        ctx.case(key=("vol-cli", args[2]), nontrivial=True)
        rc = val[0] if st == "ok" else st
        if rc != 0:
            sig = "C19:volume_no_unit" if args[2].isdigit() else "C19:volume_size"
            ctx.fail(sig, "'c -v SIZE' rejects a size its help describes", {"argv": args, "rc": rc, "stderr": (val[2][-300:] if st == "ok" else "")})
            continue
        vols = sorted(f for f in os.listdir(work) if f.startswith("v%d.7z." % i))
        data = b"".join(open(os.path.join(work, v), "rb").read() for v in vols)
        try:
            names, content = arclib.read_archive(data)
            ok = sorted(names) == ["src", "src/big", "src/small"] and len(content.get("src/big", b"")) == 9000
        except Exception as e:  # noqa
            ok = False
        if not ok:
            ctx.fail("C19:volume_content", "multi-volume archive does not hold the tree", {"argv": args, "volumes": vols})

    # ---- exit status of t and x on damaged / protected / unsupported archives
    work = os.path.join(tmp, "dmg")
    os.makedirs(work)
    cases = []
    truth_members = {}
    members = [("a.txt", b"hello world " * 40), ("b.bin", rng.randbytes(700)), ("c/d.txt", b"zzz")]
    good = arclib.write_archive(members, filters=[{"id": arclib.FILTER_LZMA2, "preset": 1}])
    copyarc = arclib.write_archive(members, filters=[{"id": arclib.FILTER_COPY}], header="raw")
    cases.append(("intact", good))
    cases.append(("intact-copy", copyarc))
    for k in range(14 if ctx.thorough else 6):
        pos = rng.randrange(32, len(copyarc))
        cases.append(("copy-flip@%d" % pos, _flip(copyarc, pos, rng.randrange(8))))
        pos = rng.randrange(0, len(good))
        cases.append(("lzma2-flip@%d" % pos, _flip(good, pos, rng.randrange(8))))
    # multi-folder archives (create + append), damaged inside each folder's packed stream
    mf_all = [("m0.txt", b"first folder " * 30), ("m1.bin", rng.randbytes(300))]
    mf = arclib.write_archive(mf_all, filters=[{"id": arclib.FILTER_COPY}])
    sizes = [len(b"first folder " * 30) + 300]
    for j in range(2):
        extra = [("n%d.bin" % j, rng.randbytes(200 + j))]
        mf_all = mf_all + extra
        mf = arclib.write_archive(extra, filters=[{"id": arclib.FILTER_COPY}], append_to=mf)
        sizes.append(200 + j)
    cases.append(("multifolder-intact", mf))
    off = 32
    for j, sz in enumerate(sizes):
        pos = off + rng.randrange(sz)
        cases.append(("multifolder-flip-folder%d" % j, _flip(mf, pos, rng.randrange(8))))
        off += sz
    cases.append(("truncated", good[: len(good) - 7]))
    cases.append(("truncated-data", copyarc[:60]))
    cases.append(("not7z", b"PK\x03\x04" + bytes(100)))
    cases.append(("starthdr-crc", _flip(good, 9, 0)))
    cases.append(("encrypted-nopw", arclib.write_archive(members, password="secret")))
    cases.append(("hdr-encrypted-nopw", arclib.write_archive(members, password="secret", header="encrypted")))
    fixture_truth = {"lzma_bcj2_1.7z": "fail", "lz4.7z": "fail", "crc_corrupted.7z": "fail", "data_corrupted.7z": "fail",
                     "test_1.7z": "ok", "empty.7z": "ok"}
    for fx in fixture_truth:
        p = os.path.join("/repo/tests/data", fx)
        if os.path.exists(p):
            cases.append(("fixture:" + fx, open(p, "rb").read()))
    jobs, truthjobs = [], []
    for i, (label, data) in enumerate(cases):
        if label.startswith("multifolder"):
            truthjobs.append((data, mf_all, None))
        elif label.startswith("fixture") or label == "not7z":
            truthjobs.append((b"", [], None))
        else:
            truthjobs.append((data, members, None))
        path = os.path.join(work, "case%d.7z" % i)
        with open(path, "wb") as f:
            f.write(data)
        jobs.append((["t", path], work))
        jobs.append((["x", path, os.path.join(work, "out_cli_%d" % i)], work))
        jobs.append((["x", "--verbose", path, os.path.join(work, "out_cliv_%d" % i)], work))
    cli_res = sandbox.pmap(_cli_job, jobs, timeout=150, mem=None)
    # ground truth: sequential in-memory extraction (stream mode) compared with the pristine members
    truth_res = sandbox.pmap(_truth, truthjobs, timeout=60)
    for i, (label, data) in enumerate(cases):
        if label.startswith("fixture:"):
            truth = fixture_truth[label[8:]]
        elif label == "not7z":
            truth = "fail"
        else:
            st, val = truth_res[i]
            if st == "timeout":
                ctx.count("status", "truth-timeout-skipped")
                continue
            truth = "ok" if (st == "ok" and val == "same") else "fail"
        for which, cres in (("t", cli_res[3 * i]), ("x", cli_res[3 * i + 1]), ("x --verbose", cli_res[3 * i + 2])):
            rc = cres[1][0] if cres[0] == "ok" else cres[0]
            ctx.case(key=(which, label), nontrivial=truth == "fail", sample={"argv": [which, label], "rc": rc, "truth": truth})
            ctx.count("status-" + which, "%s/%s" % (truth, rc))
            if rc == "timeout":
                continue
            if truth == "ok" and rc != 0:
                ctx.fail("C19:status_nonzero_on_success", "'%s' exits non-zero on an intact archive" % which,
                         {"case": label, "rc": rc, "stderr": cres[1][2][-300:], "archive_hex": data.hex() if len(data) < 3000 else None})
            if truth == "fail" and rc == 0:
                ctx.fail("C19:status_zero_on_failure", "'%s' exits 0 for an archive whose members do not extract to their original bytes" % which,
                         {"case": label, "archive_hex": data.hex() if len(data) < 3000 else None})


def _flip(data, pos, bit):
    b = bytearray(data)
    b[pos] ^= 1 << bit
    return bytes(b)


def _spec_repr(spec):
    return [(r, k, (len(p[0]), oct(p[1])) if k == "file" else (oct(p) if k == "dir" else p)) for r, k, p in spec]


def _has_dir_between_files(spec):
    # base archive without any data stream: its single folder has zero substreams (known finding F20)
    kinds = [k for _, k, _ in spec]
    return all(k == "dir" or (k == "file" and False) for k in kinds) or all(k != "file" or len(p[0]) == 0 for _, k, p in spec if k != "link") and "link" not in kinds


def replay(ctx, data):
    print(data.get("failure"))
    return 0
