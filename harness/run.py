"""Entry point: ./check <ID> [--tier quick|thorough] [--replay <file>]"""
import argparse
import faulthandler
import importlib
import json
import os
import signal
import sys

sys.path.insert(0, os.path.dirname(os.path.abspath(__file__)))
import common  # noqa: E402


def main():
    ap = argparse.ArgumentParser()
    ap.add_argument("pid")
    ap.add_argument("--tier", default=os.environ.get("VERIF_TIER", "quick"), choices=["quick", "thorough"])
    ap.add_argument("--replay")
    ap.add_argument("--budget", type=int, default=None, help="overall watchdog in seconds")
    a = ap.parse_args()
    seed = int(os.environ.get("VERIF_SEED", "0") or 0)
    budget = a.budget or (1500 if a.tier == "quick" else 7200)
    faulthandler.enable()

    def on_alarm(signum, frame):
        sys.stderr.write("check %s: own watchdog (%ds) expired\n" % (a.pid, budget))
        faulthandler.dump_traceback()
        os._exit(2)

    signal.signal(signal.SIGALRM, on_alarm)
    signal.alarm(budget)
    pid = a.pid.upper()
    mod = importlib.import_module("checks." + pid.lower())
    ctx = common.Ctx(pid, a.tier, seed)
    if a.replay:
        data = json.load(open(a.replay))
        if not hasattr(mod, "replay"):
            print("replay not supported for", pid)
            sys.exit(2)
        rc = mod.replay(ctx, data)
        sys.exit(rc)
    try:
        mod.run(ctx)
    except Exception as e:  # noqa
        # the harness could not drive the implementation the way it does on the unchanged tree (an internal it calls
        # changed shape, an observation point is gone): the tie between model and code is broken, which is reported
        # like any other broken correspondence - after a search for a failing input
        import traceback
        ctx.broken.append({"kind": "correspondence", "name": "harness-cannot-drive-implementation",
                           "detail": {"exception": repr(e)[:500], "traceback": traceback.format_exc()[-3000:]}})
    sys.exit(ctx.finish(mod))


if __name__ == "__main__":
    main()
