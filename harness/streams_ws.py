"""Correspondence streams `cmp.run` and `ws.arch`.

cmp.run: `SevenZipCompressor.compress/flush/unpacksizes` (the block loop, the per-stage counters, packsize, digest)
with the codec stages replaced by scripted ones, against `Impl.compressAll/flushCmp/unpacksizesOf`.

ws.arch: a whole create session of the real `SevenZipFile(BytesIO, "w")` (raw header mode) whose folder compressor
has scripted stages; the Lean model (`Impl.sessionArchive`) must predict the archive file BYTE FOR BYTE from the
member list, the coders and the stage script: signature header, packed area, raw header.  The scripted stages make
the packed bytes predictable; the coders, methods_map, timestamps and attribute words are read from the real objects
and handed to the model as inputs."""
import io
import os
import shutil
import tempfile

import arclib

KINDS = ["copy", "hold", "half", "tag", "lag"]


class Stage:
    """same semantics as SevenZ.Driver.scriptedStage"""

    def __init__(self, kind):
        self.kind = kind
        self.s = b""

    def compress(self, data):
        d = bytes(data)
        k = self.kind
        if k == "copy":
            return d
        if k == "hold":
            self.s += d
            return b""
        if k == "half":
            return d[::2]
        if k == "tag":
            return d + bytes([len(d) % 256])
        if k == "lag":
            out, self.s = self.s, d
            return out
        raise ValueError(k)

    def flush(self):
        k = self.kind
        if k in ("copy", "half"):
            return b""
        if k == "tag":
            return b"\xee"
        out, self.s = self.s, b""
        return out


class BlockSource:
    """a source that delivers exactly the given pieces, then EOF (short reads included)"""

    def __init__(self, blocks):
        self.blocks = list(blocks)

    def read(self, n=-1):
        return self.blocks.pop(0) if self.blocks else b""


def hx(b):
    return bytes(b).hex() or "-"


def blocks_tok(blocks):
    return ",".join(bytes(b).hex() for b in blocks) if blocks else "-"


def gen_blocks(rng):
    n = rng.choice([0, 1, 1, 2, 3, 5])
    return [rng.randbytes(rng.choice([1, 1, 2, 3, 7, 16])) for _ in range(n)]


def run_cmp(ctx, n=None):
    import py7zr.compressor as comp
    rng = ctx.rng
    n = n or (1500 if ctx.thorough else 300)
    lines, outs, cls = [], [], []
    for _ in range(n):
        L = rng.choice([1, 1, 2, 3, 4])
        mmap = [rng.random() < 0.5 for _ in range(L)]
        need = L - sum(1 for i in range(1, L) if mmap[i] and mmap[i - 1])
        nst = need if rng.random() < 0.85 else rng.choice([max(0, need - 1), need + 1])
        kinds = [rng.choice(KINDS) for _ in range(nst)]
        members = [gen_blocks(rng) for _ in range(rng.choice([0, 1, 2, 3, 4]))]
        c = comp.SevenZipCompressor.__new__(comp.SevenZipCompressor)
        c.filters, c.coders = [], []
        c.chain = [Stage(k) for k in kinds]
        c.digest, c.packsize = 0, 0
        c._unpacksizes = [0] * nst
        c._block_size = 4
        c.methods_map = list(mmap)
        fp = io.BytesIO()
        per = []
        for bl in members:
            insize, fout, crc = c.compress(BlockSource(bl), fp)
            per.append("%d:%d" % (insize, crc))
        flushed = c.flush(fp)
        try:
            us = ",".join(map(str, c.unpacksizes)) or "-"
        except IndexError:
            us = "IndexError"
        fed = ",".join(map(str, c._unpacksizes)) or "-"
        outs.append("fed=%s us=%s pack=%d digest=%d flushed=%d out=%s per=%s" % (fed, us, c.packsize, c.digest, flushed, hx(fp.getvalue()), ";".join(per) or "-"))
        lines.append("cmp.run %s %s %s" % ("".join("1" if b else "0" for b in mmap), ",".join(kinds) or "-",
                                          ";".join(blocks_tok(b) for b in members) if members else "."))
        cls.append("stages=%d/members=%d/%s" % (nst, len(members), "consistent" if nst == need else "inconsistent"))
    ctx.correspond("cmp.run", lines, outs, cls)


def _slot(v):
    return "u" if v is None else str(int(v))


class IdDecompressor:
    """stands in for SevenZipDecompressor when the scripted header stages leave the bytes as they are"""

    def __init__(self, coders, packsize, unpacksizes, crc, password=None, blocksize=None):
        self.remaining = packsize
        self.consumed = 0

    def decompress(self, fp, max_length=-1):
        n = self.remaining if max_length is None or max_length < 0 else min(self.remaining, max_length)
        data = fp.read(n)
        self.remaining -= len(data)
        self.consumed += len(data)
        return data


IDENTITY_KINDS = ["copy", "hold", "lag"]


def _real_session(rng, buf, mode, filters, password, members, bs, tmp, tag, header="raw", identity=False):
    """One real SevenZipFile session (mode 'w' or 'a') on `buf` with scripted codec stages and a deterministic clock.
    Returns the tokens the model needs: (enable, coders, methods_map, stage kinds, member tokens)."""
    import py7zr
    import py7zr.archiveinfo as ai
    import py7zr.compressor as comp
    import py7zr.helpers as helpers
    Real = comp.SevenZipCompressor
    real_bs_c, real_now = comp.get_default_blocksize, helpers.ArchiveTimestamp.from_now
    made, kinds_box = [], []

    def factory(filters=None, password=None, blocksize=None):
        c = Real(filters=filters, password=password, blocksize=blocksize)
        kinds = [rng.choice(IDENTITY_KINDS if identity else KINDS) for _ in c.chain]
        kinds_box.append(kinds)
        c.chain = [Stage(k) for k in kinds]
        c._unpacksizes = [0] * len(kinds)
        made.append(c)
        return c

    clock = [rng.randrange(116444736000000000, 159000000000000000)]

    def now():
        clock[0] += rng.randrange(0, 10 ** 7)
        return helpers.ArchiveTimestamp(clock[0])

    ai.SevenZipCompressor = factory
    real_dec = ai.SevenZipDecompressor
    if identity:
        ai.SevenZipDecompressor = IdDecompressor
    comp.get_default_blocksize = lambda: bs
    helpers.ArchiveTimestamp.from_now = staticmethod(now)
    snap = {}
    try:
        buf.seek(0)
        kw = {"header_encryption": True} if header == "encrypted" else {}
        z = py7zr.SevenZipFile(buf, mode, filters=filters, password=password, **kw)
        if header == "raw":
            z.set_encoded_header_mode(False)
        nold = len(z.header.files_info.files) if (mode == "a" and z.header is not None and z.header.files_info is not None) else 0
        orig_wh = z._write_header

        def wh():
            snap["files"] = [(f["filename"], bool(f["emptystream"]), f.get("lastwritetime"), f.get("attributes")) for f in z.header.files_info.files[nold:]] \
                if z.header.files_info is not None else []
            return orig_wh()
        z._write_header = wh
        for j, (name, kind, data) in enumerate(members):
            if kind in ("str", "empty"):
                z.writestr(data, name)
            elif kind == "dir":
                z.write(os.path.join(tmp, "d"), name)
            else:
                p = os.path.join(tmp, "f_%s_%d" % (tag, j))
                with open(p, "wb") as f:
                    f.write(data)
                z.write(p, name)
                os.unlink(p)
        z.close()
    finally:
        ai.SevenZipCompressor = Real
        ai.SevenZipDecompressor = real_dec
        comp.get_default_blocksize = real_bs_c
        helpers.ArchiveTimestamp.from_now = real_now
    if made:
        c = made[0]
        kinds = kinds_box[0]
        coders = "|".join("%s:%s" % (hx(cd["method"]), "N" if cd.get("properties") is None else hx(cd["properties"])) for cd in c.coders)
        mmap = "".join("1" if b else "0" for b in c.methods_map)
    else:
        coders, kinds, mmap = "-", [], "-"
    mtoks = []
    for (name, kind, data), (fn, es, mt, at) in zip(members, snap.get("files", [])):
        blocks = [data[i:i + bs] for i in range(0, len(data), bs)] if not es else []
        mtoks.append("%s/%d/%s/%s/%s" % (",".join(str(ord(ch)) for ch in fn), 1 if es else 0, blocks_tok(blocks), _slot(mt), _slot(at)))
    main = "%d %s %s %s %s" % (1 if password is not None else 0, coders, mmap, ",".join(kinds) or "-", ";".join(mtoks) if mtoks else ".")
    if header == "raw":
        return main
    # the header's own one-folder compressor is the last one made
    hc, hk = made[-1], kinds_box[-1]
    hcoders = "|".join("%s:%s" % (hx(cd["method"]), "N" if cd.get("properties") is None else hx(cd["properties"])) for cd in hc.coders)
    return "%s %s %d %s" % (hcoders, ",".join(hk) or "-", bs, main)


class TraceIO(io.BytesIO):
    """BytesIO that records the positioned writes issued on it"""

    def __init__(self, initial=b""):
        super().__init__(initial)
        self.ops = []

    def write(self, b):
        self.ops.append((self.tell(), bytes(b)))
        return super().write(b)

    def truncate(self, *a):
        self.ops.append(("truncate", a))
        return super().truncate(*a)


def ops_tok(ops):
    """canonical form of a write sequence: empty writes dropped, consecutive writes at consecutive offsets merged"""
    out = []
    for off, d in ops:
        if off == "truncate":
            out.append(["truncate", repr(d)])
            continue
        if not d:
            continue
        if out and out[-1][0] != "truncate" and out[-1][0] + len(out[-1][1]) == off:
            out[-1][1] += d
        else:
            out.append([off, bytearray(d)])
    return ";".join("%s:%s" % (o, hx(bytes(d)) if o != "truncate" else d) for o, d in out)


def _gen_members(rng, counts=(1, 1, 2, 3, 4, 6, 9)):
    members = []
    for name in arclib.gen_names(rng, rng.choice(counts)):
        kind = rng.choice(["str", "str", "str", "empty", "dir", "file"])
        data = b"" if kind in ("empty", "dir") else rng.randbytes(rng.choice([1, 2, 5, 16, 17, 40]))
        members.append((name, kind, data))
    return members


def run_arch(ctx, n=None, n_app=None):
    import histories
    rng = ctx.rng
    n = n or (400 if ctx.thorough else 80)
    n_app = n_app or (300 if ctx.thorough else 60)
    chains = [(lab, f) for lab, f in arclib.chains() if histories.supported(f)]
    tmp = tempfile.mkdtemp(prefix="verif_ws_")
    lines, outs, cls = [], [], []
    alines, aouts, acls = [], [], []
    elines, eouts, ecls = [], [], []
    olines, oouts, eolines, eoouts, aolines, aoouts = [], [], [], [], [], []
    ealines, eaouts, eacls = [], [], []
    eaolines, eaoouts = [], []
    try:
        os.mkdir(os.path.join(tmp, "d"))

        def pick(it):
            lab, filters = chains[it % len(chains)] if it < len(chains) else rng.choice(chains)
            password = rng.choice([None, None, "pw"])
            if password is not None:
                if not histories.supported(arclib.with_aes(filters), "x"):
                    password = None
                else:
                    filters = arclib.with_aes(filters)
            return lab, filters, password

        for it in range(n):
            lab, filters, password = pick(it)
            bs = rng.choice([1, 3, 4, 7, 64])
            members = _gen_members(rng)
            buf = TraceIO()
            toks = _real_session(rng, buf, "w", filters, password, members, bs, tmp, "w%d" % it)
            lines.append("ws.arch " + toks)
            outs.append(hx(buf.getvalue()))
            olines.append("ws.ops " + toks)
            oouts.append(ops_tok(buf.ops))
            cls.append("%s%s/members=%d/dirs=%d" % (lab, "+AES" if password else "", len(members), sum(1 for m in members if m[1] == "dir")))
            ctx.count("ws.arch chain", lab + ("+AES" if password else ""))
        # the default header mode (and header encryption): the raw header goes through a compressor of its own and
        # an EncodedHeader record with the folder's CRC follows
        for it in range(max(20, n // 2)):
            lab, filters, password = pick(it)
            header = "encoded" if password is None or it % 2 == 0 else "encrypted"
            bs = rng.choice([3, 4, 7, 64, 1000])
            members = _gen_members(rng)
            buf = TraceIO()
            toks = _real_session(rng, buf, "w", filters, password, members, bs, tmp, "e%d" % it, header=header)
            elines.append("ws.enc " + toks)
            eouts.append(hx(buf.getvalue()))
            eolines.append("ws.eops " + toks)
            eoouts.append(ops_tok(buf.ops))
            ecls.append("%s/%s%s/members=%d" % (header, lab, "+AES" if password else "", len(members)))
        # append sessions: the model parses the base image with the READER model, extends the header object as
        # Header.initialize() / _after_write / flush_archive do, and re-serialises it after the new packed data
        for it in range(n_app):
            lab, filters, password = pick(it)
            bs = rng.choice([1, 3, 4, 7, 64])
            shape = rng.choice(["data", "data", "dirs-only", "empty-only", "single", "nothing"])
            base_members = {"data": _gen_members(rng), "dirs-only": [("d%d" % i, "dir", b"") for i in range(rng.choice([1, 2]))],
                            "empty-only": [("e", "empty", b"")], "single": [("one", "str", rng.randbytes(9))], "nothing": []}[shape]
            buf = TraceIO()
            _real_session(rng, buf, "w", filters, password, base_members, bs, tmp, "b%d" % it)
            for k in range(rng.choice([1, 1, 2])):
                base = buf.getvalue()
                lab2, filters2, password2 = pick(rng.randrange(10 ** 6))
                am = rng.choice([_gen_members(rng, (1, 2, 3)), _gen_members(rng, (1, 2, 3)), [("ad%d" % k, "dir", b"")], [("ae%d" % k, "empty", b"")], []])
                # names must not repeat inside one archive for py7zr's bookkeeping of this stream (not a format rule)
                buf.ops = []
                toks = _real_session(rng, buf, "a", filters2, password2, am, rng.choice([1, 3, 4, 7, 64]), tmp, "a%d_%d" % (it, k))
                alines.append("ws.app %s %s" % (hx(base), toks))
                aouts.append(hx(buf.getvalue()))
                aolines.append("ws.aops %s %s" % (hx(base), toks))
                aoouts.append(ops_tok(buf.ops))
                acls.append("base=%s/session=%d/%s->%s%s/members=%d" % (shape, k + 1, lab, lab2, "+AES" if password2 else "", len(am)))
        # append sessions in the DEFAULT (encoded) header mode, base and append alike: the header's own compressor and
        # the decoder that reads it back are scripted stages that leave the bytes as they are (copy / hold / lag), the
        # members' stages likewise; the model locates the packed header through the EncodedHeader record, parses it
        # with the reader model, extends it and writes packed header + record after the new data
        for it in range(max(10, n_app // 3)):
            lab, filters = chains[it % len(chains)] if it < len(chains) else rng.choice(chains)
            shape = rng.choice(["data", "data", "dirs-only", "single", "nothing"])
            base_members = {"data": _gen_members(rng), "dirs-only": [("d%d" % i, "dir", b"") for i in range(rng.choice([1, 2]))],
                            "single": [("one", "str", rng.randbytes(9))], "nothing": []}[shape]
            buf = TraceIO()
            _real_session(rng, buf, "w", filters, None, base_members, rng.choice([3, 7, 64, 1000]), tmp, "eb%d" % it, header="encoded", identity=True)
            for k in range(rng.choice([1, 1, 2])):
                base = buf.getvalue()
                lab2, filters2 = rng.choice(chains)
                am = rng.choice([_gen_members(rng, (1, 2, 3)), _gen_members(rng, (1, 2, 3)), [("ead%d" % k, "dir", b"")], []])
                buf.ops = []
                toks = _real_session(rng, buf, "a", filters2, None, am, rng.choice([3, 7, 64, 1000]), tmp, "ea%d_%d" % (it, k), header="encoded", identity=True)
                ealines.append("ws.eapp %s %s" % (hx(base), toks))
                eaouts.append(hx(buf.getvalue()))
                eaolines.append("ws.eaops %s %s" % (hx(base), toks))
                eaoouts.append(ops_tok(buf.ops))
                eacls.append("base=%s/session=%d/%s->%s/members=%d" % (shape, k + 1, lab, lab2, len(am)))
    finally:
        shutil.rmtree(tmp, ignore_errors=True)
    ctx.correspond("ws.eapp", ealines, eaouts, eacls)
    ctx.correspond("ws.eaops", eaolines, eaoouts, eacls)
    ctx.correspond("ws.arch", lines, outs, cls)
    ctx.correspond("ws.app", alines, aouts, acls)
    ctx.correspond("ws.enc", elines, eouts, ecls)
    # the ORDER in which the bytes reach the file (C14): the session's positioned writes vs the model's
    ctx.correspond("ws.ops", olines, oouts, cls)
    ctx.correspond("ws.eops", eolines, eoouts, ecls)
    ctx.correspond("ws.aops", aolines, aoouts, acls)
    # the reader's model on exactly these inputs: Header._read vs Impl.readNextHeader on the headers the real sessions wrote
    import struct
    import hdrlib
    rl, ro = [], []
    for hx_ in outs + aouts:
        data = bytes.fromhex(hx_)
        ofs, size, _ = struct.unpack("<QQL", data[12:32])
        hdr = data[32 + ofs:32 + ofs + size]
        rl.append("hdr.r " + (hdr.hex() or "-"))
        ro.append(hdrlib.impl_read(hdr))
    ctx.correspond("hdr.r-session", rl, ro)


def run(ctx):
    run_cmp(ctx)
    run_arch(ctx)
