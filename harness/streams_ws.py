"""Correspondence streams `cmp.run` and `ws.arch`.

cmp.run: `SevenZipCompressor.compress/flush/unpacksizes` (the block loop, the per-stage counters, packsize, digest)
with the codec stages replaced by scripted ones, against `Impl.compressAll/flushCmp/unpacksizesOf`.

ws.arch: a whole create session of the real `SevenZipFile(BytesIO, "w")` (raw header mode) whose folder compressor
has scripted stages; the Lean model (`Impl.sessionArchive`) must predict the archive file BYTE FOR BYTE from the
member list, the coders and the stage script: signature header, packed area, raw header.  The scripted stages make
the packed bytes predictable; the coders, methods_map, timestamps and attribute words are read from the real objects
and handed to the model as inputs."""
import io
import os
import shutil
import tempfile

import arclib

KINDS = ["copy", "hold", "half", "tag", "lag"]


class Stage:
    """same semantics as SevenZ.Driver.scriptedStage"""

    def __init__(self, kind):
        self.kind = kind
        self.s = b""

    def compress(self, data):
        d = bytes(data)
        k = self.kind
        if k == "copy":
            return d
        if k == "hold":
            self.s += d
            return b""
        if k == "half":
            return d[::2]
        if k == "tag":
            return d + bytes([len(d) % 256])
        if k == "lag":
            out, self.s = self.s, d
            return out
        raise ValueError(k)

    def flush(self):
        k = self.kind
        if k in ("copy", "half"):
            return b""
        if k == "tag":
            return b"\xee"
        out, self.s = self.s, b""
        return out


class BlockSource:
    """a source that delivers exactly the given pieces, then EOF (short reads included)"""

    def __init__(self, blocks):
        self.blocks = list(blocks)

    def read(self, n=-1):
        return self.blocks.pop(0) if self.blocks else b""


def hx(b):
    return bytes(b).hex() or "-"


def blocks_tok(blocks):
    return ",".join(bytes(b).hex() for b in blocks) if blocks else "-"


def gen_blocks(rng):
    n = rng.choice([0, 1, 1, 2, 3, 5])
    return [rng.randbytes(rng.choice([1, 1, 2, 3, 7, 16])) for _ in range(n)]


def run_cmp(ctx, n=None):
    import py7zr.compressor as comp
    rng = ctx.rng
    n = n or (1500 if ctx.thorough else 300)
    lines, outs, cls = [], [], []
    for _ in range(n):
        L = rng.choice([1, 1, 2, 3, 4])
        mmap = [rng.random() < 0.5 for _ in range(L)]
        need = L - sum(1 for i in range(1, L) if mmap[i] and mmap[i - 1])
        nst = need if rng.random() < 0.85 else rng.choice([max(0, need - 1), need + 1])
        kinds = [rng.choice(KINDS) for _ in range(nst)]
        members = [gen_blocks(rng) for _ in range(rng.choice([0, 1, 2, 3, 4]))]
        c = comp.SevenZipCompressor.__new__(comp.SevenZipCompressor)
        c.filters, c.coders = [], []
        c.chain = [Stage(k) for k in kinds]
        c.digest, c.packsize = 0, 0
        c._unpacksizes = [0] * nst
        c._block_size = 4
        c.methods_map = list(mmap)
        fp = io.BytesIO()
        per = []
        for bl in members:
            insize, fout, crc = c.compress(BlockSource(bl), fp)
            per.append("%d:%d" % (insize, crc))
        flushed = c.flush(fp)
        try:
            us = ",".join(map(str, c.unpacksizes)) or "-"
        except IndexError:
            us = "IndexError"
        fed = ",".join(map(str, c._unpacksizes)) or "-"
        outs.append("fed=%s us=%s pack=%d digest=%d flushed=%d out=%s per=%s" % (fed, us, c.packsize, c.digest, flushed, hx(fp.getvalue()), ";".join(per) or "-"))
        lines.append("cmp.run %s %s %s" % ("".join("1" if b else "0" for b in mmap), ",".join(kinds) or "-",
                                          ";".join(blocks_tok(b) for b in members) if members else "."))
        cls.append("stages=%d/members=%d/%s" % (nst, len(members), "consistent" if nst == need else "inconsistent"))
    ctx.correspond("cmp.run", lines, outs, cls)


def _slot(v):
    return "u" if v is None else str(int(v))


def run_arch(ctx, n=None):
    import py7zr
    import py7zr.archiveinfo as ai
    import py7zr.compressor as comp
    import py7zr.helpers as helpers
    import histories
    rng = ctx.rng
    n = n or (400 if ctx.thorough else 80)
    chains = [(lab, f) for lab, f in arclib.chains() if histories.supported(f)]
    Real = comp.SevenZipCompressor
    real_bs_c, real_now = comp.get_default_blocksize, helpers.ArchiveTimestamp.from_now
    tmp = tempfile.mkdtemp(prefix="verif_ws_")
    lines, outs, cls = [], [], []
    try:
        os.mkdir(os.path.join(tmp, "d"))
        for it in range(n):
            lab, filters = chains[it % len(chains)] if it < len(chains) else rng.choice(chains)
            password = rng.choice([None, None, "pw"])
            if password is not None:
                if not histories.supported(arclib.with_aes(filters), "x"):
                    password = None
                else:
                    filters = arclib.with_aes(filters)
            bs = rng.choice([1, 3, 4, 7, 64])
            made = []
            kinds_box = []

            def factory(filters=None, password=None, blocksize=None):
                c = Real(filters=filters, password=password, blocksize=blocksize)
                kinds = [rng.choice(KINDS) for _ in c.chain]
                kinds_box.append(kinds)
                c.chain = [Stage(k) for k in kinds]
                c._unpacksizes = [0] * len(kinds)
                made.append(c)
                return c

            clock = [rng.randrange(116444736000000000, 159000000000000000)]

            def now():
                clock[0] += rng.randrange(0, 10 ** 7)
                return helpers.ArchiveTimestamp(clock[0])

            members = []
            nm = rng.choice([1, 1, 2, 3, 4, 6, 9])
            names = arclib.gen_names(rng, nm)
            for name in names:
                kind = rng.choice(["str", "str", "str", "empty", "dir", "file"])
                data = b"" if kind in ("empty", "dir") else rng.randbytes(rng.choice([1, 2, 5, 16, 17, 40]))
                members.append((name, kind, data))
            ai.SevenZipCompressor = factory
            comp.get_default_blocksize = lambda: bs
            helpers.ArchiveTimestamp.from_now = staticmethod(now)
            snap = {}
            buf = io.BytesIO()
            try:
                z = py7zr.SevenZipFile(buf, "w", filters=filters, password=password)
                z.set_encoded_header_mode(False)
                orig_wh = z._write_header

                def wh():
                    snap["files"] = [(f["filename"], bool(f["emptystream"]), f.get("lastwritetime"), f.get("attributes")) for f in z.header.files_info.files]
                    return orig_wh()
                z._write_header = wh
                for name, kind, data in members:
                    if kind in ("str", "empty"):
                        z.writestr(data, name)
                    elif kind == "dir":
                        z.write(os.path.join(tmp, "d"), name)
                    else:
                        p = os.path.join(tmp, "f%d" % len(lines))
                        with open(p, "wb") as f:
                            f.write(data)
                        z.write(p, name)
                        os.unlink(p)
                z.close()
            finally:
                ai.SevenZipCompressor = Real
                comp.get_default_blocksize = real_bs_c
                helpers.ArchiveTimestamp.from_now = real_now
            c = made[0]
            kinds = kinds_box[0]
            coders = "|".join("%s:%s" % (hx(cd["method"]), "N" if cd.get("properties") is None else hx(cd["properties"])) for cd in c.coders)
            mtoks = []
            for (name, kind, data), (fn, es, mt, at) in zip(members, snap["files"]):
                blocks = [data[i:i + bs] for i in range(0, len(data), bs)] if not es else []
                mtoks.append("%s/%d/%s/%s/%s" % (",".join(str(ord(ch)) for ch in fn), 1 if es else 0, blocks_tok(blocks), _slot(mt), _slot(at)))
            lines.append("ws.arch %d %s %s %s %s" % (1 if password is not None else 0, coders, "".join("1" if b else "0" for b in c.methods_map),
                                                     ",".join(kinds) or "-", ";".join(mtoks) if mtoks else "."))
            outs.append(hx(buf.getvalue()))
            cls.append("%s%s/members=%d/dirs=%d" % (lab, "+AES" if password else "", len(members), sum(1 for m in members if m[1] == "dir")))
            ctx.count("ws.arch chain", lab + ("+AES" if password else ""))
    finally:
        shutil.rmtree(tmp, ignore_errors=True)
    ctx.correspond("ws.arch", lines, outs, cls)


def run(ctx):
    run_cmp(ctx)
    run_arch(ctx)
