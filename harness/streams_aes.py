"""Correspondence stream `aes`: the residue buffers of AESCompressor / AESDecompressor with the cipher replaced
by a recorder (object attribute reassigned; no source change) vs the Lean model."""
import itertools


class Recorder:
    def __init__(self):
        self.calls = []

    def encrypt(self, view):
        self.calls.append(bytes(view))
        return bytes(view)

    def decrypt(self, view):
        self.calls.append(bytes(view))
        return bytes(view)


_TEMPLATE = {}


def _objs():
    """one real AESCompressor/AESDecompressor pair (the KDF runs once); residue state is reset per case"""
    if not _TEMPLATE:
        from py7zr.compressor import AESCompressor, AESDecompressor
        c = AESCompressor("pw")
        _TEMPLATE["c"] = c
        _TEMPLATE["d"] = AESDecompressor(c.encode_filter_properties(), "pw")
    return _TEMPLATE["c"], _TEMPLATE["d"]


def hexs(b):
    return bytes(b).hex() or "-"


def show(rec, buf):
    return (";".join(hexs(c) for c in rec.calls) or ".") + " buf=" + hexs(bytes(buf))


def impl_c(chunks):
    c, _ = _objs()
    rec = Recorder()
    c.cipher = rec
    c.buf.reset()
    for ch in chunks:
        c.compress(ch)
    c.flush()
    return show(rec, c.buf.view)


def impl_d(chunks):
    _, d = _objs()
    rec = Recorder()
    d.cipher = rec
    d.buf.reset()
    try:
        for ch in chunks:
            d.decompress(ch)
    except Exception as e:  # noqa
        return "exc:" + type(e).__name__
    return show(rec, d.buf.view)


def chunkings(rng, thorough):
    out = []
    # exhaustive: all compositions of small totals into pieces
    for total in range(0, 9 if thorough else 7):
        for cuts in itertools.product([0, 1], repeat=max(0, total - 1)):
            parts, cur = [], 1
            for c in cuts:
                if c:
                    parts.append(cur)
                    cur = 1
                else:
                    cur += 1
            if total:
                parts.append(cur)
            out.append([p * 5 for p in parts])           # pieces of 5,10,15,... bytes: cross the 16-byte boundary everywhere
    for _ in range(1500 if thorough else 400):
        n = rng.randrange(0, 8)
        out.append([rng.choice([0, 1, 2, 15, 16, 17, 31, 32, 33, 40, rng.randrange(0, 41)]) for _ in range(n)])
    return out


def run(ctx):
    rng = ctx.rng
    lines, outs, classes = [], [], []
    dl, do, dc = [], [], []
    counter = 0
    for sizes in chunkings(rng, ctx.thorough):
        chunks = []
        for s in sizes:
            chunks.append(bytes((counter + i) % 251 for i in range(s)))
            counter += s
        tok = ";".join(hexs(c) for c in chunks) if chunks else "."
        lines.append("aes.c " + tok)
        outs.append(impl_c(chunks))
        classes.append("total%%16=%d" % (sum(sizes) % 16))
        # decrypt side: the model mirrors Python's negative-index slicing too, so any chunking is compared
        dl.append("aes.d " + tok)
        do.append(impl_d(chunks))
        dc.append("min>=16" if all(s >= 16 for s in sizes) else "short-pieces")
    ctx.correspond("aes.c", lines, outs, classes)
    # lines where the real code raises (non-block-multiple decrypt of a recorder never raises; kept for completeness)
    ctx.correspond("aes.d", dl, do, dc)
