"""Correspondence stream `aes`: the residue buffers of AESCompressor / AESDecompressor with the cipher replaced
by a recorder (object attribute reassigned; no source change) vs the Lean model."""
import itertools


class Recorder:
    def __init__(self):
        self.calls = []

    def encrypt(self, view):
        self.calls.append(bytes(view))
        return bytes(view)

    def decrypt(self, view):
        self.calls.append(bytes(view))
        return bytes(view)


_TEMPLATE = {}


def _objs():
    """one real AESCompressor/AESDecompressor pair (the KDF runs once); residue state is reset per case"""
    if not _TEMPLATE:
        from py7zr.compressor import AESCompressor, AESDecompressor
        c = AESCompressor("pw")
        _TEMPLATE["c"] = c
        _TEMPLATE["d"] = AESDecompressor(c.encode_filter_properties(), "pw")
    return _TEMPLATE["c"], _TEMPLATE["d"]


def hexs(b):
    return bytes(b).hex() or "-"


def show(rec, buf):
    return (";".join(hexs(c) for c in rec.calls) or ".") + " buf=" + hexs(bytes(buf))


def impl_c(chunks):
    c, _ = _objs()
    rec = Recorder()
    c.cipher = rec
    c.buf.reset()
    for ch in chunks:
        c.compress(ch)
    c.flush()
    return show(rec, c.buf.view)


def impl_d(chunks):
    _, d = _objs()
    rec = Recorder()
    d.cipher = rec
    d.buf.reset()
    try:
        for ch in chunks:
            d.decompress(ch)
    except Exception as e:  # noqa
        return "exc:" + type(e).__name__
    return show(rec, d.buf.view)


def chunkings(rng, thorough):
    out = []
    # exhaustive: all compositions of small totals into pieces
    for total in range(0, 9 if thorough else 7):
        for cuts in itertools.product([0, 1], repeat=max(0, total - 1)):
            parts, cur = [], 1
            for c in cuts:
                if c:
                    parts.append(cur)
                    cur = 1
                else:
                    cur += 1
            if total:
                parts.append(cur)
            out.append([p * 5 for p in parts])           # pieces of 5,10,15,... bytes: cross the 16-byte boundary everywhere
    for _ in range(1500 if thorough else 400):
        n = rng.randrange(0, 8)
        out.append([rng.choice([0, 1, 2, 15, 16, 17, 31, 32, 33, 40, rng.randrange(0, 41)]) for _ in range(n)])
    return out


def run(ctx):
    rng = ctx.rng
    lines, outs, classes = [], [], []
    dl, do, dc = [], [], []
    counter = 0
    for sizes in chunkings(rng, ctx.thorough):
        chunks = []
        for s in sizes:
            chunks.append(bytes((counter + i) % 251 for i in range(s)))
            counter += s
        tok = ";".join(hexs(c) for c in chunks) if chunks else "."
        lines.append("aes.c " + tok)
        outs.append(impl_c(chunks))
        classes.append("total%%16=%d" % (sum(sizes) % 16))
        # decrypt side: the model mirrors Python's negative-index slicing too, so any chunking is compared
        dl.append("aes.d " + tok)
        do.append(impl_d(chunks))
        dc.append("min>=16" if all(s >= 16 for s in sizes) else "short-pieces")
    ctx.correspond("aes.c", lines, outs, classes)
    # lines where the real code raises (non-block-multiple decrypt of a recorder never raises; kept for completeness)
    ctx.correspond("aes.d", dl, do, dc)


# ------------------------------------------------------------------ key material
# Passwords in every normalisation form: precomposed, decomposed (base + combining marks), conjoining jamo,
# compatibility singletons (ANGSTROM SIGN, OHM SIGN), astral characters (surrogate pairs in UTF-16), empty, long.
PASSWORDS = ["secret", "", "p\u00e4ssw\u00f6rd", "pa\u0308sswo\u0308rd", "\u30d1\u30b9\u30ef\u30fc\u30c9", "\U0001F511key", "a" * 70,
             "e\u0327\u0301x", "\u1100\u1161\u11a8", "\u212Bngstro\u0308m\u2126", "\ufb01le \u01c4", "q\u0307\u0323"]


def equivalents(pw):
    """other spellings of the same text (canonical / compatibility forms): every one of them is a WRONG password"""
    import unicodedata
    out = []
    for form in ("NFC", "NFD", "NFKC", "NFKD"):
        v = unicodedata.normalize(form, pw)
        if v != pw and v not in out:
            out.append(v)
    return out


def _km_session(job):
    """what reaches the key derivation when an archive is written and read with `pw`: calculate_key's arguments,
    recorded through the module attribute the compressor looks up (no source change)"""
    pw, how = job
    import io
    import py7zr
    import py7zr.compressor as comp
    rec = []
    real = comp.calculate_key

    def spy(password, cycles, salt, digest):
        rec.append((bytes(password), cycles, bytes(salt), digest))
        return real(password, cycles, salt, digest)
    comp.calculate_key = spy
    try:
        buf = io.BytesIO()
        kw = {"header_encryption": True} if how == "hdr" else {}
        with py7zr.SevenZipFile(buf, "w", password=pw, **kw) as z:
            z.writestr(b"content", "m")
        if how == "app":
            buf.seek(0)
            with py7zr.SevenZipFile(buf, "a", password=pw) as z:
                z.writestr(b"more", "n")
        nw = len(rec)
        buf.seek(0)
        with py7zr.SevenZipFile(buf, "r", password=pw) as z:
            z.testzip()
    finally:
        comp.calculate_key = real
    return [(p.hex(), c, s.hex(), d, i < nw) for i, (p, c, s, d) in enumerate(rec)]


def run_km(ctx):
    import sandbox
    rng = ctx.rng
    pws = list(PASSWORDS)
    for _ in range(40 if ctx.thorough else 12):
        n = rng.randrange(1, 9)
        pool = [0x61, 0x308, 0x301, 0xE4, 0x1100, 0x1161, 0x212B, 0x2126, 0xFB01, 0xFFFF, 0x10000, 0x1F511, 0x10FFFF, 0xD7FF, 0xE000, 0x20, 0x7F, 0x80]
        pws.append("".join(chr(rng.choice(pool)) for _ in range(n)))
    jobs = [(pw, how) for i, pw in enumerate(pws) for how in (("plain", "hdr", "app") if i < len(PASSWORDS) else (rng.choice(["plain", "hdr", "app"]),))]
    res = sandbox.pmap(_km_session, jobs, timeout=120)
    lines, outs, classes = [], [], []
    for (pw, how), (st, val) in zip(jobs, res):
        conf = {"password": [ord(c) for c in pw], "session": how}
        if st != "ok":
            ctx.fail("C11:kdf_session_" + st, "a write/read session with this password did not complete: %s" % str(val)[:200], conf)
            continue
        if not val:
            ctx.fail("C11:not_encrypted", "a password was given and the key derivation never ran", conf)
            continue
        import unicodedata
        for phex, cycles, shex, digest, writing in val:
            lines.append("aes.km %s %s" % (shex or "-", ",".join(str(ord(c)) for c in pw) or "-"))
            outs.append((shex + phex) or "-")
            classes.append(("nfc" if unicodedata.normalize("NFC", pw) == pw else "not-nfc") + ("/astral" if any(ord(c) > 0xFFFF for c in pw) else "") + "/" + how + ("/w" if writing else "/r"))
            if cycles != 19 and writing:
                ctx.count("kdf-cycles", str(cycles))
    ctx.correspond("aes.km", lines, outs, classes)
