"""The independent reference writer: emits 7z archives in layouts py7zr's own writer never makes.

Written from docs/archive_format.rst; imports nothing from py7zr.  Its output is validated by the Lean strict
reader (refreader) before py7zr is asked to read it.
"""
import bz2
import lzma
import os
import struct
import zlib

from refreader import kdf_7zaes


def number(v):
    if v < 0x80:
        return bytes([v])
    for extra in range(1, 8):
        if v < (1 << (8 * extra + (7 - extra))):
            first = ((0xFF << (8 - extra)) & 0xFF) | (v >> (8 * extra))
            return bytes([first]) + (v & ((1 << (8 * extra)) - 1)).to_bytes(extra, "little")
    return b"\xff" + v.to_bytes(8, "little")


def number_nonminimal(v, extra):
    """a conforming but longer encoding of v (extra bytes >= minimal)"""
    if extra == 8:
        return b"\xff" + v.to_bytes(8, "little")
    assert v < (1 << (8 * extra + (7 - extra)))
    first = ((0xFF << (8 - extra)) & 0xFF) | (v >> (8 * extra))
    return bytes([first]) + (v & ((1 << (8 * extra)) - 1)).to_bytes(extra, "little")


def bitfield(bits):
    out = bytearray((len(bits) + 7) // 8)
    for i, b in enumerate(bits):
        if b:
            out[i // 8] |= 0x80 >> (i % 8)
    return bytes(out)


def boollist(bits):
    if all(bits):
        return b"\x01"
    return b"\x00" + bitfield(bits)


def crc(b):
    return zlib.crc32(b) & 0xFFFFFFFF


# ------------------------------------------------------------------ chains
def chain_copy():
    return [("00", None)], lambda d: d


def chain_lzma2():
    f = {"id": lzma.FILTER_LZMA2, "preset": 1}
    return [("21", lzma._encode_filter_properties(f))], lambda d: lzma.compress(d, format=lzma.FORMAT_RAW, filters=[f])


def chain_lzma():
    f = {"id": lzma.FILTER_LZMA1, "preset": 1}
    return [("030101", lzma._encode_filter_properties(f))], lambda d: lzma.compress(d, format=lzma.FORMAT_RAW, filters=[f])


def chain_bzip2():
    return [("040202", None)], lambda d: bz2.compress(d)


def chain_deflate():
    def enc(d):
        c = zlib.compressobj(6, zlib.DEFLATED, -15)
        return c.compress(d) + c.flush()
    return [("040108", None)], enc


def chain_deflate64():
    import inflate64

    def enc(d):
        c = inflate64.Deflater()
        return c.deflate(d) + c.flush()
    return [("040109", None)], enc


def chain_bcj_lzma2():
    f1 = {"id": lzma.FILTER_X86}
    f2 = {"id": lzma.FILTER_LZMA2, "preset": 1}
    # coder order as p7zip writes it: the coder reading the packed stream first, its output bound to the next input
    return [("21", lzma._encode_filter_properties(f2)), ("03030103", None)], \
        lambda d: lzma.compress(d, format=lzma.FORMAT_RAW, filters=[f1, f2])


def chain_bcj_props_lzma2(offset):
    """the BCJ coder carries its start offset as a 4-byte property (legal; 7-Zip itself writes none)"""
    def mk():
        f1 = {"id": lzma.FILTER_X86, "start_offset": offset} if offset else {"id": lzma.FILTER_X86}
        f2 = {"id": lzma.FILTER_LZMA2, "preset": 1}
        return [("21", lzma._encode_filter_properties(f2)), ("03030103", offset.to_bytes(4, "little"))], \
            lambda d: lzma.compress(d, format=lzma.FORMAT_RAW, filters=[f1, f2])
    return mk


def chain_delta_lzma2():
    f1 = {"id": lzma.FILTER_DELTA, "dist": 3}
    f2 = {"id": lzma.FILTER_LZMA2, "preset": 1}
    return [("21", lzma._encode_filter_properties(f2)), ("03", lzma._encode_filter_properties(f1))], \
        lambda d: lzma.compress(d, format=lzma.FORMAT_RAW, filters=[f1, f2])


CHAINS = {"copy": chain_copy, "lzma2": chain_lzma2, "lzma": chain_lzma, "bzip2": chain_bzip2, "deflate": chain_deflate,
          "bcj+lzma2": chain_bcj_lzma2, "delta+lzma2": chain_delta_lzma2,
          "deflate64": chain_deflate64, "bcj(0)+lzma2": chain_bcj_props_lzma2(0), "bcj(16)+lzma2": chain_bcj_props_lzma2(16)}


def aes_props_and_cipher(password, cycles=6, ivlen=16, saltlen=0, rnd=None):
    from Cryptodome.Cipher import AES
    salt = (rnd or os.urandom)(saltlen) if saltlen else b""
    iv = (rnd or os.urandom)(ivlen)
    key = kdf_7zaes(password, cycles, salt)
    b0 = cycles | ((1 if ivlen else 0) << 6) | ((1 if saltlen else 0) << 7)
    b1 = (((saltlen - 1) if saltlen else 0) << 4) | ((ivlen - 1) if ivlen else 0)
    props = bytes([b0, b1]) + salt + iv

    def enc(d):
        d = d + bytes(-len(d) % 16)
        return AES.new(key, AES.MODE_CBC, iv + bytes(16 - len(iv))).encrypt(d)
    return props, enc


def folder_record(coders_7zip_order):
    """coders listed packed-stream-first (as p7zip does): coder i's output feeds coder i+1's input."""
    out = number(len(coders_7zip_order))
    for method_hex, props in coders_7zip_order:
        m = bytes.fromhex(method_hex)
        flag = len(m) | (0x20 if props is not None else 0)
        out += bytes([flag]) + m
        if props is not None:
            out += number(len(props)) + props
    n = len(coders_7zip_order)
    for i in range(n - 1):
        out += number(i + 1) + number(i)       # InIndex i+1  <- OutIndex i
    return out


def build(members, layout, rng):
    """members: list of dict(name, kind in file/emptyfile/dir/symlink, data, mtime, ctime, atime, attr)
    layout: dict(folders=[(chain, [member indices with streams])], nums_omitted, crc_place in sub/folder/none/partial, packcrc,
                 packpos, dummy, emptyfile_vector, header in raw/lzma/aes, password, nonminimal, anti_free=True)
    -> archive bytes
    """
    password = layout.get("password")
    data_area = bytearray(rng.randbytes(layout.get("packpos", 0)))
    pack_sizes, pack_crcs, folder_recs, folder_unpack, folder_crcs = [], [], [], [], []
    sub_sizes, sub_crcs, nums = [], [], []
    for chain_name, idxs in layout["folders"]:
        aes = chain_name.endswith("+aes")
        base = chain_name[:-4] if aes else chain_name
        coders, enc = CHAINS[base]()
        plain = b"".join(members[i]["data"] for i in idxs)
        packed = enc(plain)
        sizes = [len(plain)] * 1
        # unpack sizes per coder in listed order: every stage of these chains keeps the length
        unp = [len(plain)] * len(coders)
        if aes:
            props, aenc = aes_props_and_cipher(password, rnd=rng.randbytes)
            unp = [len(packed)] + unp
            packed = aenc(packed)
            coders = [("06f10701", props)] + coders
        data_area += packed
        pack_sizes.append(len(packed))
        pack_crcs.append(crc(packed))
        folder_recs.append(folder_record(coders))
        folder_unpack.append(unp)
        folder_crcs.append(crc(plain))
        nums.append(len(idxs))
        for i in idxs:
            sub_sizes.append(len(members[i]["data"]))
            sub_crcs.append(crc(members[i]["data"]))
    nfold = len(layout["folders"])
    num = number
    if layout.get("nonminimal"):
        def num(v):  # noqa
            need = len(number(v)) - 1
            return number_nonminimal(v, min(8, need + rng.randrange(0, 2)))
    h = bytearray()
    if nfold:
        h += b"\x04"
        h += b"\x06" + num(layout.get("packpos", 0)) + num(nfold) + b"\x09" + b"".join(num(s) for s in pack_sizes)
        if layout.get("packcrc"):
            h += b"\x0a" + b"\x01" + b"".join(struct.pack("<L", c) for c in pack_crcs)
        h += b"\x00"
        h += b"\x07\x0b" + num(nfold) + b"\x00" + b"".join(folder_recs) + b"\x0c" + b"".join(num(s) for u in folder_unpack for s in u)
        place = layout.get("crc_place", "sub")
        if place == "folder":
            h += b"\x0a" + b"\x01" + b"".join(struct.pack("<L", c) for c in folder_crcs)
        h += b"\x00"
        sub_needed = not (all(n == 1 for n in nums) and place in ("folder", "none") and layout.get("nums_omitted", True))
        if sub_needed:
            h += b"\x08"
            if not (all(n == 1 for n in nums) and layout.get("nums_omitted", True)):
                h += b"\x0d" + b"".join(num(n) for n in nums)
            if any(n > 1 for n in nums):
                h += b"\x09"
                k = 0
                for n in nums:
                    for j in range(n - 1):
                        h += num(sub_sizes[k + j])
                    k += n
            if place == "sub" or (place == "folder" and any(n != 1 for n in nums)) or place == "partial":
                # digests for the sub-streams whose CRC is not known from a single-stream folder CRC
                defined, vals = [], []
                k = 0
                for fi, n in enumerate(nums):
                    for j in range(n):
                        if not (place == "folder" and n == 1):
                            d = True if place != "partial" else ((k + j) % 2 == 0)
                            defined.append(d)
                            if d:
                                vals.append(sub_crcs[k + j])
                    k += n
                if defined:
                    h += b"\x0a" + boollist(defined) + b"".join(struct.pack("<L", c) for c in vals)
            h += b"\x00"
        h += b"\x00"
    # ---- files
    n = len(members)
    f = bytearray(b"\x05" + num(n))
    empty = [m["kind"] in ("dir", "emptyfile") for m in members]
    if any(empty):
        bf = bitfield(empty)
        f += b"\x0e" + num(len(bf)) + bf
        ef = [m["kind"] == "emptyfile" for m in members if m["kind"] in ("dir", "emptyfile")]
        if any(ef) and layout.get("emptyfile_vector", True):
            bf = bitfield(ef)
            f += b"\x0f" + num(len(bf)) + bf
    if layout.get("dummy"):
        f += b"\x19" + num(layout["dummy"]) + bytes(layout["dummy"])
    names = b"".join(m["name"].encode("utf-16-le") + b"\x00\x00" for m in members)
    f += b"\x11" + num(len(names) + 1) + b"\x00" + names
    for pid, key in ((0x14, "mtime"), (0x12, "ctime"), (0x13, "atime")):
        vals = [m.get(key) for m in members]
        if any(v is not None for v in vals):
            body = boollist([v is not None for v in vals]) + b"\x00" + b"".join(struct.pack("<Q", v) for v in vals if v is not None)
            f += bytes([pid]) + num(len(body)) + body
    vals = [m.get("attr") for m in members]
    if any(v is not None for v in vals):
        body = boollist([v is not None for v in vals]) + b"\x00" + b"".join(struct.pack("<L", v) for v in vals if v is not None)
        f += b"\x15" + num(len(body)) + body
    f += b"\x00"
    header = b"\x01" + bytes(h) + bytes(f) + b"\x00"
    mode = layout.get("header", "raw")
    if mode != "raw":
        packpos = len(data_area)
        if mode == "lzma":
            coders, enc = chain_lzma()
            packed = enc(header)
            unp = [len(header)]
        else:
            props, aenc = aes_props_and_cipher(password, rnd=rng.randbytes)
            coders = [("06f10701", props)]
            packed = aenc(header)
            unp = [len(header)]
        data_area += packed
        eh = b"\x17" + b"\x06" + number(packpos) + number(1) + b"\x09" + number(len(packed)) + b"\x00"
        eh += b"\x07\x0b" + number(1) + b"\x00" + folder_record(coders) + b"\x0c" + b"".join(number(u) for u in unp)
        eh += b"\x0a\x01" + struct.pack("<L", crc(header)) + b"\x00" + b"\x00"
        header = eh
    start = struct.pack("<QQL", len(data_area), len(header), crc(header))
    return b"7z\xbc\xaf\x27\x1c\x00\x04" + struct.pack("<L", crc(start)) + start + bytes(data_area) + header
