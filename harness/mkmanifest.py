"""Regenerates MANIFEST.json from the per-property table below (kept valid at all times)."""
import json
import os

HERE = os.path.dirname(os.path.dirname(os.path.abspath(__file__)))

NOTE = ("Trusted base: Lean 4.33 kernel; axioms propext/Classical.choice/Quot.sound only (audited each run, no sorry/"
        "native_decide/bv_decide/user axioms); the hand-written Lean model is tied to /repo by the correspondence "
        "streams run by this check (differential testing); codecs, AES, zlib.crc32, pathlib, struct, io, threads and "
        "the OS are parameters of the model. See DESIGN.md §6.")

CHECKS = {}
NA = {}


def check(pid, text, technique, design_ref):
    CHECKS[pid] = dict(text=text, technique=technique, design_ref=design_ref)


check("C17",
      "Theorems (Lean, all v<2^64 / all vectors / all names): NUMBER write→read round trip, ≤9 bytes, py7zr reader = "
      "spec decoder on every conforming encoding, spec decoder reads py7zr's output; boolean vectors of every length "
      "with/without all-defined shortcut; UTF-16 names of any scalar values; fixed-width fields; CRC lists of any length (crcs_roundtrip, crcs_short_refused). The model functions "
      "are tied to archiveinfo.py by exhaustive/structured correspondence streams (num, bools, utf16, crcs, files-info "
      "vectors); the round-trip is also evaluated directly on the implementation.",
      "Lean 4 proof over hand-written model + differential correspondence (line protocol) + direct round-trip exploration",
      "DESIGN.md §4 C17")

check("C16",
      "Theorems (Lean, every string): the writestr/writef gate check_archive_path equals an independent definition "
      "(resolve '..' component-wise against a virtual root; reject iff absolute or climbing out); what "
      "_sanitize_archive_arcname lets through and the name stored for it are never absolute; a name the gate accepts is stored relative (gate_stored_relative) and resolves to plain components under the root (accepted_resolves_inside); the verdict is monotone in the starting depth (walk_monotone); counter-example theorem "
      "for the pinned probe-directory variant (finding F5, repaired). pathlib parsing, canonical_path, "
      "get_sanitized_output_path, _sanitize_archive_arcname are tied to helpers.py/py7zr.py by an exhaustive stream over "
      "the property's component alphabet (<=5/6 components) + probe-path and Unicode names; the verdict of the real "
      "function is compared with the Lean oracle on every name; writestr/writef/write/writeall exercised end to end. Round-h addition: the arcname helper is driven with pathlib.Path objects too (stream path.sanitize on the object's text), and the stored name of every accepted or sanitised name is judged directly (no root, no drive prefix, no climbing).",
      "Lean 4 proof (oracle equivalence by induction over components) + exhaustive differential correspondence + API exploration",
      "DESIGN.md §4 C16")

check("C19",
      "Theorems (Lean): every volume size the help describes ({Size}[b|k|m|g], either case, or no unit) is accepted and "
      "converted to Size x unit (all digit strings); counter-example for the pinned 'unit is None' test (F2, repaired); "
      "exit-status table of t/x (0 iff ok). The size parser is tied to cli.py by a correspondence stream; the rest of the "
      "property is decided on the real command line: 'python -m py7zr' subprocesses for c/x/l/a/t over generated trees, "
      "every unit spelling, and intact/damaged/encrypted/unsupported/multi-folder archives with the expected status taken "
      "from ground truth (pristine members vs sequential in-memory extraction). Partial: argparse and interpreter exit "
      "codes are runtime. Round-h addition: 'x --verbose' is part of the exit-status exploration; archive names with dots for 'c'.",
      "Lean 4 proof of the size-parser/exit-table logic + differential correspondence + subprocess exploration against ground truth",
      "DESIGN.md §4 C19")

check("C05",
      "Theorems (Lean): parsed_header_bounded / parsed_encoded_bounded - for EVERY byte string given to Header._read a "
      "successful parse has <= 8 members and <= 8 declared sub-streams per header byte and <= 1 folder / pack size per "
      "byte (post-conditions of every production on arbitrary input; the count bombs F4 and dea92af were the absence of "
      "this). For EVERY decoder function, input and declared size: the repaired Worker.decompress / "
      "encoded-header loop ends within (declared output + unread input + 1)(k+2) iterations; a call never returns more "
      "than requested; counter-example theorem for the pinned unguarded loop (F4, repaired). The decode model is tied "
      "to compressor.py/py7zr.py by scripted-decoder correspondence (calls and whole loops incl. the stall guard); the "
      "header parser model by the mutated-header stream. Time/memory themselves are measured: sandboxed sessions "
      "(10 s, 1.5 GiB, peak RSS) over byte-mutated, structure-mutated (CRC re-sealed, extreme counts, external flags "
      "with every data index; coordinated pack/unpack size mutations) and wrong-password inputs x call sequences; a child "
      "killed under the address-space cap is re-run under a high cap and judged by exit status and RSS. Interpreter "
      "crashes found this way and repaired in /repo: stale failed decoder, BCJ coder properties (CPython lzma NULL "
      "dereference); open finding F23: pyppmd's decoder crashes nondeterministically when the header declares more "
      "output than the stream holds. Partial: wall time and RSS are observations. Round-g/i additions: self-referential and nested encoded headers, encoded headers declaring gigabytes, oversized pack sizes with pack CRCs, quadratic bind-pair tables, 7zAES property sweep with a password, a two-decoder chain (LZMA then BCJ) whose stream expands to 512 MiB behind a declared kilobyte.",
      "Lean 4 termination proof by lexicographic measure over a decoder-parametric model + differential correspondence + sandboxed mutation exploration",
      "DESIGN.md §4 C05")
check("C20",
      "Theorems (Lean, for every decoder): per call at most max_length bytes returned and at most one block of input "
      "read; a chain that honours max_length never buffers; otherwise the carry-over buffer holds at most one call's "
      "decoder output; no loss/duplication across the buffer for every request sequence; every stage of the coder chain "
      "is held to the caller's limit (every_stage_bounded); counter-example theorem: a decoder ignoring max_length makes "
      "the buffer proportional to expansion (F13: ZStandard/Deflate/Deflate64/Brotli did, repaired in /repo). Tied by "
      "the dec streams (buffer length/pos/consumed and per-stage output lengths compared). Peak RSS of real 256 MB "
      "(quick) / 1 GB (thorough) members per codec family - zeros, short period, medium ratio, random; BCJ in front of "
      "BZip2/LZMA; Deflate64 from the reference writer - is measured in child processes against baseline + 700 MiB. "
      "Open finding: writing 1 GB through PPMd (growth inside pyppmd). Partial: RSS is an observation.",
      "Lean 4 invariants over a decoder-parametric model + differential correspondence + RSS measurement in child processes",
      "DESIGN.md §9.3 C20")
check("C12",
      "Theorems (Lean, every archive shape, call sequences of ANY length): under the quantifier's discipline every call "
      "returns what the same call returns on a freshly opened archive (invariant: not dirty -> decoder cache fresh); "
      "reset() restores the initial state from every state; test()/testzip() verdicts do not depend on the state; "
      "counter-example theorem for the pinned stale-cache testzip (F3, repaired). The session model is tied to py7zr by "
      "running real sessions (all disciplined sequences <=3/4 calls + sampled longer + undisciplined ones) on single/"
      "multi-folder, plain/encrypted archives by path and stream and comparing every call's result (slices -> "
      "checksums) with the model; each result is also compared directly with a fresh open; archive SHA-256 and stream "
      "method trace checked for sessions ended by close/context exit/exception. Round-i addition: sessions that extract into the archive's own directory a member named like the archive - directly, under an alias (symbolic / hard link) of the archive, and through a directory link the archive itself carries.",
      "Lean 4 invariant proof over a session state machine + differential correspondence of real sessions + direct repeatability exploration",
      "DESIGN.md §4 C12")

check("C06",
      "Theorem (Lean, every layout): whenever the format's assignment of sub-streams to files succeeds (any number of "
      "files, any interleaving of empty-stream entries, any number of folders incl. folders without streams, any sizes "
      "and digests), py7zr's cursor gives every member the same folder, offset, size and digest (assign_refines_spec, "
      "by a simulation relation between the two cursors; spec_assign_uses_all: the format hands out every sub-stream "
      "once). The cursor model is tied to _real_get_contents by the asg stream (real archives: model vs py7zr vs the "
      "strict reader's assignment), the header reader model to archiveinfo.py by the hdr streams incl. non-writer "
      "headers and mutations. The independent reader is a strict Lean parser written from docs/archive_format.rst "
      "(every count, size, vector length, END marker, reserved bit), validated against the third-party fixtures. "
      "Exploration: logical archives x 24 layout features from an independent reference writer, validated by the "
      "strict reader, then read by py7zr (listing, metadata, extraction to a factory AND to a directory) and compared "
      "member by member; plus all decodable fixtures. Parse half (Lean, EVERY input of < 2^63 bytes the strict reader "
      "accepts, no assumption about the writer): reader_refines_spec_number / _boolvector / _packinfo / _unpackinfo / "
      "_subsizes / _streams - the model of py7zr's reader succeeds on the same bytes, stops at the same place and returns "
      "the same NUMBERs, bit vectors, PackInfo (sizes, with or without CRC section), UnpackInfo (any folders, simple and "
      "complex coders, properties, bind pairs, packed indices, unpack sizes, folder CRCs absent / all / partially "
      "defined), SubStreamsInfo (stream counts explicit or omitted, SIZE section present or absent, digest section "
      "present or absent; the count guard provably never fires on an accepted record) and hence the whole StreamsInfo "
      "record: everything that decides which bytes a member gets (folders with one result stream; the distribution of "
      "digests is read but not compared); reader_refines_spec_encoded_record (the next-header buffer as an EncodedHeader "
      "record); and the bodies of the FilesInfo properties: _bitfield (EmptyStream / EmptyFile), _times, _attrs (all / "
      "partially / not defined), _names (UTF-16 names up to read_utf16's limit, backslash rewrite); and "
      "reader_never_misreads_header - on every next-header buffer < 131072 bytes that the strict reader accepts as a raw "
      "Header (any StreamsInfo, any FilesInfo property sequence) py7zr's reader model returns a header object that agrees "
      "with the strict reader's (streams; per member: empty-stream flag, name, three times, attributes) or raises "
      "(Anti / StartPos are unsupported); it never succeeds with other values. Partial: the disjunction (conformance "
      "up to the properties py7zr refuses), the size bound (read_utf16's 65535-unit limit), folders with one result "
      "stream, EmptyFile/Anti flags and digests not compared.",
      "Lean 4 refinement proofs (cursor simulates the format's assignment; py7zr's reader model refines the strict reader production by production, by inversion of both parser monads) + strict reference parser + differential correspondence + layout exploration with an independent writer",
      "DESIGN.md §9.3 C06")
check("C07",
      "Theorems (Lean, unbounded). (1) session_archive_conforms: for EVERY list of write calls of a create session (names "
      "over all Unicode scalars, directories and data members in any order, every member's bytes in any read blocks), "
      "EVERY chain of codec stages (arbitrary state/compress/flush functions) and any well-formed coder records, the "
      "archive file the session model assembles - signature header, packed area, raw header - is accepted by the strict "
      "ARCHIVE reader (a parser written from the format document: magic, start-header CRC, next header located by "
      "offset/size ending exactly at end of file, header CRC, every count / property size / bit-vector length / END / "
      "count-agreement check of the header database), the packed sizes tile the data area exactly, and the format's "
      "assignment returns exactly the members written, in order, each with the length and CRC-32 of its bytes at the "
      "offset where its predecessors end. (2) compressor_accounting: for any stages and any blocks, the sizes/CRCs the "
      "compressor reports are those of the bytes, packsize/digest those of what was written, and the folder's last "
      "unpack size is the total. (3) strict_reader_accepts_header and per-section theorems (PackInfo, UnpackInfo with any "
      "legal coder graph incl. complex coders, SubStreamsInfo with counts/sizes elided or present and any digest pattern, "
      "FilesInfo with any definedness pattern and padding). CE theorem for the pinned property-size computation (F1, "
      "repaired). Tie to the code: ws.arch (whole create sessions of the real SevenZipFile with scripted codec stages: the "
      "session model predicts the archive file BYTE FOR BYTE, every documented chain +/-password, directories, block sizes "
      "1..64), cmp.run (SevenZipCompressor block loop/counters/unpacksizes vs the compressor model), hdr.w (Header.write "
      "byte-for-byte incl. partial vectors and zero-stream folders). Exploration: histories of 1..3 sessions (every "
      "documented chain, sessions mixing encrypted and plain, raw/encoded/encrypted header) parsed by the strict reader "
      "as an executable and decoded with codec libraries + an independent 7zAES key derivation. Partial: append sessions "
      "and encoded/encrypted headers are covered by hdr.w + the executable strict reader, not by the session theorem; the "
      "three 2^64 size hypotheses are the format's limits.",
      "Lean 4 proof (whole create session accepted by a strict archive reader and decoded to the members written; compressor accounting; all inputs) + byte-for-byte correspondence of real sessions + independent reader exploration",
      "DESIGN.md §9.3 C07, §9.9")
check("C08",
      "Theorems (Lean, unbounded). history_conforms: for EVERY archive a create session followed by ANY number of append "
      "sessions leaves (inductive predicate Written: each session with its own chain of arbitrary codec stages, coder "
      "list and member list; the constructors' hypotheses are only the limits of the format and of py7zr's reader, and that "
      "the bytes on disk are what the session model leaves), the strict archive reader accepts the file, the packed sizes of "
      "all sessions tile the data area exactly, the format's assignment returns the members of ALL sessions in session "
      "order - every earlier member with the folder, offset, size and CRC it had, the new ones behind them in one more "
      "folder - and py7zr's own reader returns the header object the next session extends (written_good: induction over the "
      "sessions on an archive invariant; Inv.base, Inv.append, Inv.content_append, Inv.append_image). "
      "append_assignment_exact / append_cursor_exact: for every base header the format can read, the assignment after adding "
      "a folder exists and is the base's assignment followed by the new folder's members (Spec and py7zr's cursor). "
      "append_keeps_assignment (prefix stability of the cursor for any two readable headers), reserialise_times. Tie to the "
      "code: ws.app (real append sessions with scripted codec stages on bases from real sessions: the append model - reader "
      "model on the base image, Header.initialize() append branch, re-serialisation, file assembly without truncation - "
      "predicts the file BYTE FOR BYTE), hdr.r-session, hdr.w/hdr.r with non-writer-like headers. Exploration: histories "
      "w a a a over every chain, empty / dir-only sessions, password, header modes, bases = py7zr archives, third-party "
      "fixtures and reference-writer layouts (packpos>0, partial vectors, folder CRCs, ...); after every session the member "
      "map is read by py7zr AND by the independent reader. Partial: the theorem covers py7zr-written bases in raw header "
      "mode with at least one member per append; third-party bases, encoded headers and member-less appends are covered by "
      "ws.app / exploration only.",
      "Lean 4 proof by induction over sessions (archive invariant established by create, preserved by append; strict archive reader recovers all sessions' members) + byte-for-byte correspondence of real append sessions + history exploration with two independent readers",
      "DESIGN.md §9.3 C08, §9.10")
check("C01",
      "Theorems (Lean, unbounded): the 7zAES residue buffers feed the cipher the stream exactly once, in order, in whole "
      "blocks, zero-padded, for every chunking (writer) / every chunking into >=1-block pieces (reader); chunked decoding "
      "with the carry-over buffer loses/duplicates nothing for every decoder and request sequence; cutting a folder's "
      "output by the stored sizes returns the members; names round-trip through the UTF-16 table; container_roundtrip: "
      "the members an independent reader finds in a create session's archive (C07.session_archive_conforms) carry the "
      "written names in call order and (offset,size) pairs that cut the concatenation of the members' bytes back into "
      "exactly each member's bytes, for every member list / chain / block size (the codec chain's invertibility is the one "
      "hypothesis); stored_sizes_crcs. Tied by the aes (recording cipher), dec (scripted decoders) and cmp.run "
      "(scripted compressor stages) streams. The end-to-end claim is explored: member lists x every "
      "supported documented chain (+/-AES) x header mode x path/BytesIO/buffered/multi-volume(64..) x I/O block "
      "{17,64,4096,default} x extraction chunk {1,7,4096,default}, each in a child process. Partial: codec correctness, "
      "multivolumefile and OS are parameters (F17, a tail defect of the bcj library found by this exploration, is worked around in /repo).",
      "Lean 4 invariant proofs (AES residue buffers, carry-over buffer, sub-stream split) + differential correspondence + configuration-grid exploration",
      "DESIGN.md §4 C01")
check("C10",
      "Theorems (Lean): method_names = exactly the display names of the coder ids present, each once, in priority order; "
      "every table name is displayable (counter-example for the pinned list: Delta/Brotli dropped, repaired); "
      "needs_password() iff an AES coder is present or a password was supplied; solid iff some folder has >1 stream. "
      "Tied by the ls stream on real archives (ground truth for folders/coders from the independent reader). Listing "
      "calls are compared with what extraction delivers (sizes, CRCs, directory-ness), getinfo with/without slash and "
      "absent names, totals/blocks/archive size, over py7zr histories incl. mixed encrypted+plain sessions, reference-"
      "writer layouts and fixtures. Round-h addition: the listing interfaces are compared inside write and append sessions as well, after every member-adding call (getinfo must find every name the session lists).",
      "Lean 4 proofs of the summary logic + differential correspondence + listing-vs-extraction exploration",
      "DESIGN.md §4 C10")

check("C09",
      "Theorem (Lean, every archive shape and EVERY subset of members): on a fresh session extract(T) delivers exactly "
      "the selected part of what extractall delivers, with identical folder/offset/length per member (skip arithmetic "
      "of decode-and-discard, folders without targets skipped, trailing members not decoded); trailing slash immaterial; "
      "absent names ignored; selection distributes over unions of targets and depends only on which names the collection holds (selected_union, selected_set_like: list or set, any order, repeats); non-recursive = exact name, recursive = exact name or prefix (nonrecursive_exact, recursive_iff); recursive selection = target + members beneath it under the quantifier's prefix-freedom. "
      "Tied by the sel and rs streams. Explored on py7zr- and reference-written archives (solid, multi-folder, "
      "empty-stream files between data members): all subsets T for small archives, list/set, +/- '/', recursive, "
      "directory and factory output, created paths = selected members + ancestors. Round-h addition: stored (Copy) and LZMA2 solid folders whose members exceed the decoder's 1 MiB read-ahead, every subset of their members.",
      "Lean 4 proof (induction over folders/members) + differential correspondence + exhaustive-subset exploration",
      "DESIGN.md §4 C09")
check("C11",
      "Theorems (Lean): with a chain ending in 7zAES every content byte reaches the cipher exactly once, in order, in "
      "16-byte aligned calls, zero padded, for every chunking; key_material_injective - for a fixed salt the bytes fed "
      "to the key derivation (salt ++ UTF-16LE units of the password as given) determine the password, for passwords in "
      "any normalisation form and any plane: no canonically equivalent, truncated or folded password derives the same "
      "key; header-mode machine (any setter sequence): encrypted -> encoded and the AES filter is chosen iff encrypted; "
      "AES coder and no password -> PasswordRequired before any decode; wrong-key output is delivered only on a CRC-32 "
      "collision. Tied by the aes.c/aes.d streams, by aes.km (calculate_key's arguments recorded during real write, "
      "append and read sessions with precomposed, decomposed, jamo, compatibility and astral passwords vs keyMaterial) "
      "and by the setter sequences run on real SevenZipFile objects. Explored: plaintext / compressed-form / name windows "
      "searched in the archive bytes, IV and ciphertext reuse across two builds, absent / wrong / right passwords incl. "
      "every canonical and compatibility equivalent of the right one as a WRONG password, create and append sessions on "
      "bases with plain / encoded / encrypted headers, append sessions opened with a wrong password (must not destroy), an "
      "independent KDF decrypts with the original password. Partial: secrecy of AES-CBC, RNG quality and KDF strength "
      "are outside any model here. Round-i addition: every setter sequence in which an encoded header is asked for after header encryption (theorem encoded_on_keeps_encryption).",
      "Lean 4 invariant proof of the AES residue buffers + injectivity of the key material + decision-logic theorems + differential correspondence + leak/IV/password exploration",
      "DESIGN.md §4 C11, §9.11")

check("C04",
      "Theorems (Lean, no enumeration/SAT): CRC-32 modelled as the bit-serial shift register of the format's appendix "
      "is linear in the register difference; two equal-length byte strings differing only inside four consecutive "
      "bytes (every single-bit flip, every burst <=32 bits) have different CRC-32 from every start value; hence a "
      "CRC-verified region (start header, raw next header, stored member) that verified pristine is rejected after "
      "such damage; block-wise accumulation = CRC of the concatenation for every list of blocks (crc32_chunked), so the rejection holds under every blocking of the reads (chunked_verify_rejects_burst). Tied by the crc stream (zlib.crc32, "
      "calculate_crc32 with several block sizes). Beyond that detection is probabilistic and is explored: all single-bit "
      "flips of small archives, overwrites, every truncation, bursts, block swaps, insert/remove/extend over py7zr and "
      "reference-writer archives (incl. a CRC-0 member, folder-CRC-only layout, AES, multi-folder); extraction outcome "
      "compared with the pristine map and test()/testzip() checked for consistency on the same bytes. Round-h addition: the integrity entry points are also evaluated through testzip() with worker processes (mp=True) and through extractall() with a progress callback attached.",
      "Lean 4 proof of CRC-32 burst detection (linear-register invariant) + differential correspondence + exhaustive bit-flip exploration",
      "DESIGN.md §4 C04")

check("C14",
      "Theorems (Lean, every session of the write models, every crash point (n complete writes, k bytes of the next)): "
      "create_crash_verdict / session_crash_verdict / session_encoded_crash_verdict - the image of a torn CREATE session "
      "(raw or encoded header, any members, chain, sizes) fails the start-header gate, or is byte for byte the finished "
      "archive, or exhibits a CRC-32 collision between the final 20 field bytes and the same bytes with >=5 trailing "
      "placeholder bytes (the format's 32-bit protection of its commit record, stated, not hidden); append_crash_verdict "
      "/ good_append_crash_verdict - for every archive reachable by create+append sessions and every APPEND session (raw "
      "header) the image is rejected by the two gates, or passes them with the OLD header and an untouched prefix (reads "
      "as before the session), or is the finished archive, or exhibits a CRC-32 collision; plus skeleton_rejected, "
      "torn_sig_cases, torn_tail_rejected (burst theorem). The write sequences the theorems quantify over are tied to the "
      "code by streams ws.ops / ws.eops / ws.aops (recorded seek/write traces of real sessions with scripted codecs vs "
      "sessionOps / sessionOpsEncoded / appendSessionOps) and the gates by crash.ok / crash.gate (real open path vs "
      "startHeaderOk / headerGate). Explored on the real code: EVERY byte-granular prefix of the recorded traces of create and "
      "append sessions (all member-adding calls incl. writeall after earlier content, nested archives as members, tiny "
      "headers) plus dropped/reordered last blocks, each image opened by py7zr and by the independent reader: rejected, or "
      "complete and correct (append: before or after). append_crash_general / append_crash_verdict_encoded: the same for "
      "a base in the DEFAULT (encoded) header mode - signature header, packed streams, packed header P, EncodedHeader "
      "record R - for every decoder of the header chain: rejected by signature/record gate, or old record and untouched "
      "prefix and then the packed header is still P, or decodes to the same header, or fails the record's folder CRC "
      "(the gate added by the repair cfa832b), or collides under CRC-32; tied by ws.eapp / ws.eaops (encoded-mode append "
      "sessions byte for byte, files and write sequences). Partial: what a real OS persists is modelled as write "
      "prefixes; the encoded-mode theorem is about the file shape, the archive invariant of C08 is proved for raw "
      "headers only.",
      "Lean 4 proofs over the session write-sequence model (case analysis of torn commit records, CRC burst theorem, archive invariant) + differential correspondence of write traces and open gates + exhaustive crash-prefix exploration",
      "DESIGN.md §4 C14, §9.11")
check("C15",
      "Theorem (Lean, histories of any length, any number of failing calls at any stage): every failing call raises, "
      "no other call does, and the closed archive describes exactly the members of the successful calls in order with "
      "their sizes and CRCs — the failed source is never retried; counter-example theorem for the pinned tree (F7, "
      "repaired). Tied by the ws stream: real sessions with injected faults (missing source, dangling link, FIFO, "
      "rejected arcname, failing stream, EACCES on lstat, EIO on open, un-stat-able inner member of writeall) compared "
      "call by call and member by member with the model; mid-read failures are held to the property's weaker clause. Round-h addition: trees whose failing file is preceded by files already archived by the same writeall() call; a session ended by the failed call's exception leaving the with-block.",
      "Lean 4 invariant proof over the write-session model + differential correspondence of fault-injected sessions",
      "DESIGN.md §4 C15")

check("C03",
      "Theorems (Lean): over a finite file-system model with symbolic links (physical location = link-following "
      "resolution of the parent; writes follow a final link unless guarded), the repaired extraction step — refuse when "
      "the resolved location is not under the resolved destination, never write through a final link — keeps EVERY "
      "mutated location under the destination for every initial file system and every step sequence (arbitrary names, "
      "kinds, link targets, any length), completed or aborted; kernel-evaluated counter-example for the pinned lexical "
      "check (chain a->'.', a/b->'..', b/evil; F8, repaired); get_sanitized_output_path results are lexically under the "
      "canonical destination, and for extraction into the working directory (no path) the result is a relative path that "
      "joined to the working directory is exactly the checked path (sanitized_inside_cwd; CE for the pinned branch that "
      "returned '/abs' for './/abs', repaired in 6d3f35c). Tied by the path streams (path.out, and path.outcwd evaluated "
      "with the process standing in the directory). Decided on the real file system by exploration: hostile archives "
      "from the independent writer (names/kinds/targets of the property's alphabet, all single entries, known chains, "
      "random 2-8 entry archives, names with marker/separator prefixes in front of absolute paths, entries flagged as links "
      "without a stream, groups of entries whose names are spellings of one output location incl. the destination root, "
      "three destination spellings, path/stream, empty/populated destination) extracted under "
      "an audit hook with every mutated path resolved against the jail, plus before/after snapshots. Partial: the FS "
      "model's tie to the kernel is by those runs, not by proof.",
      "Lean 4 invariant proof over a symlink file-system model + kernel-checked counter-example + audit-hook exploration of hostile archives",
      "DESIGN.md §4 C03")

check("C02",
      "Theorems (Lean): kind and permission bits survive the attribute word for every kind and every mode 0..0o7777 "
      "(kernel-evaluated over the whole table); timestamp envelope: under the IEEE-754 round-to-nearest bounds for the "
      "magnitudes involved (2^-20 s on sum and quotient, 16 ticks on the product, 2^-22 s on the difference, <1 tick "
      "truncation) from_datetime->totimestamp is within 5 us for every instant up to 2100 (linear arithmetic over Q; the "
      "assumed bounds are measured with exact rationals on every run). Tied by the attr stream on real files. The tree "
      "claim is explored: generated trees (depth<=5, empty dirs, 0-byte files, modes, sub-second mtimes, quantifier names, "
      "relative links to files/dirs) through writeall/extractall (arcname, dereference, password, cwd/given destination) "
      "and pack_7zarchive/unpack_7zarchive, compared by lstat/readlink/read. Partial: os.utime granularity, umask and "
      "float rounding are runtime; no whole-tree theorem.",
      "Lean 4 proofs (attribute table, rational rounding envelope via linarith) + differential correspondence + tree round-trip exploration",
      "DESIGN.md §4 C02")

check("C13",
      "Theorems (Lean, any number of workers, steps and any interleaving): with pairwise disjoint outputs every output "
      "receives exactly what its own worker wrote, in order (interleaving_independent), hence parallel = sequential on "
      "intact archives (parallel_eq_sequential); if any worker raises, the thread-mode join re-raises an exception some "
      "worker raised (errors_surface_threads); the executable scheduler used by the harness only produces interleavings "
      "(runSchedule_interleave); counter-example theorem for the pinned process mode whose queue was not shared (F9, "
      "repaired). Tied to py7zr by real thread-parallel extractions whose output writes are ordered by a harness "
      "scheduler (all interleavings for small shapes), every start order of thread and process workers, the sequential "
      "path, damage at every folder position (CRC, unwritable output), and concurrent independent SevenZipFile objects. "
      "Partial: disjointness of file handles/decoders is an hypothesis the exploration tests; orders below write "
      "granularity are the OS scheduler's.",
      "Lean 4 proof over all interleavings of a worker-step model + scheduler-enforced differential correspondence with real threads/processes",
      "DESIGN.md §4 C13")

check("C18",
      "Theorems (Lean, any number of workers/members, every interleaving of the workers' event lists): the events about a "
      "member are exactly its one start, its updates, its one end carrying its size, in that order "
      "(member_events_well_ordered, one_start_one_end); preparation first, post-processing last; update events sum to the "
      "bytes of delivered members (updates_sum) and the decode loop's accounting adds up whatever iterations report "
      "(updates_sum_decoded); FIFO invariant of the queue under every producer/reporter interleaving and close() "
      "delivering the whole history (queue_invariant, close_delivers_all); counter-example theorem for the pinned "
      "join(1) (repaired). Tied to py7zr by recording the callbacks of real extractions (archives of C09/C13, "
      "extractall/extract(T), path/stream, factory/directory, scheduler-gated worker interleavings, eight handler "
      "behaviours incl. reporter held back until close) and replaying them through the model as a schedule; the "
      "property's clauses are also checked directly on every recording, incl. none-after-close for 1.3 s. Partial: the "
      "1 s periodic update depends on wall-clock time (exercised with a slow sink, not enumerated). Round-h addition: trees with symbolic links (to a file, upward, to a directory) extracted to a directory with a callback, completely and selectively: the update events account for the link targets' bytes too; callback-less calls before callback extractions.",
      "Lean 4 proof over all interleavings of an event-queue model + differential correspondence of recorded callbacks + direct exploration",
      "DESIGN.md §4 C18")

ALL = ["C%02d" % i for i in range(1, 21)]
REASON_PENDING = "not yet claimed in this revision: model/theorems/correspondence for it are still being built (see DESIGN.md §8.3 staging)"


def main():
    checks = []
    for pid in ALL:
        if pid not in CHECKS:
            continue
        c = CHECKS[pid]
        checks.append({
            "property_id": pid,
            "quick_cmd": "./check %s --tier quick" % pid,
            "thorough_cmd": "./check %s --tier thorough" % pid,
            "evidence_file": "/verif/evidence/%s.json" % pid,
            "replay_cmd_template": "./check %s --replay {path}" % pid,
            "engine": "lean4-model+correspondence",
            "level_claimed": {"category": "proof", "text": c["text"], "design_ref": c["design_ref"]},
            "level_note": NOTE,
            "technique": c["technique"],
        })
    na = [{"property_id": p, "reason": NA.get(p, REASON_PENDING)} for p in ALL if p not in CHECKS]
    m = {
        "version": 1,
        "setup_cmd": "cd lean && lake build",
        "hooks": {
            "guard": "PY7ZR_VERIF",
            "enable": "environment variable PY7ZR_VERIF=1 (set by ./check); no source hooks are currently needed",
            "baseline_off_cmd": "cd /repo && /venv/bin/python -m pytest -ra -q -p no:cacheprovider --timeout=900 --continue-on-collection-errors",
            "source_commits": [],
            "add_only": True,
        },
        "engines": [{
            "name": "lean4-model+correspondence",
            "path": "/verif/lean (model, theorems, native driver) + /verif/harness (Python correspondence and exploration)",
            "serves_properties": sorted(CHECKS),
            "kind_free_text": "machine-checked proof in Lean 4 about a hand-written model; model tied to the code by a differential correspondence check on every run",
        }],
        "checks": checks,
        "notes": "Run ./check <ID> --tier quick|thorough from /verif. Known findings: KNOWN_FINDINGS.json.",
        "not_applicable": na,
    }
    with open(os.path.join(HERE, "MANIFEST.json"), "w") as f:
        json.dump(m, f, indent=1)


if __name__ == "__main__":
    main()
