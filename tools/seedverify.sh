#!/bin/sh
# tools/seedverify.sh <seed-id>: confirm in a scratch worktree that the seeded change applies, passes the
# existing tests, and that its demonstration fails with it and passes without it.  Removes the worktree.
S="$1"
W="/tmp/verify_$S"
git -C /repo worktree add -q --detach "$W" HEAD || exit 3
cd "$W" && git apply "/verif/seeded/$S/patch.diff" || { echo "patch does not apply"; git -C /repo worktree remove --force "$W"; exit 3; }
T=$(PYTHONPATH="$W" timeout 900 /venv/bin/python -m pytest -q -p no:cacheprovider --timeout=900 -n 8 2>&1 | tail -1)
echo "tests-with-patch: $T"
PYTHONPATH="$W" timeout 300 /venv/bin/python "/verif/seeded/$S/demo.py" > /tmp/demo_$S.changed 2>&1; RC1=$?
echo "demo-with-patch: rc=$RC1 $(tail -1 /tmp/demo_$S.changed)"
cd /tmp
PYTHONPATH=/repo timeout 300 /venv/bin/python "/verif/seeded/$S/demo.py" > /tmp/demo_$S.unchanged 2>&1; RC2=$?
echo "demo-without-patch: rc=$RC2 $(tail -1 /tmp/demo_$S.unchanged)"
git -C /repo worktree remove --force "$W"
rm -f /tmp/demo_$S.changed /tmp/demo_$S.unchanged
