#!/bin/sh
# tools/allchecks.sh [tier] : every claimed check on the current tree, one summary line each
cd /verif
T=${1:-quick}
for i in 01 02 03 04 05 06 07 08 09 10 11 12 13 14 15 16 17 18 19 20; do
  ./check C$i --tier $T 2>&1 | grep "VIOLATION\|^OK prop\|Traceback\|Error" | tail -2
  echo "  exit=$? (C$i)"
done
