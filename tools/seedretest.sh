#!/bin/sh
# tools/seedretest.sh <seed-id> <property-id>... : re-run checks against a stored seed (serialised with seedproc)
S="$1"; shift
exec 9>/tmp/seedproc.lock; flock 9
/verif/tools/seedtest.sh "$S" "$@" > "/tmp/seedretest_$S.log" 2>&1
