#!/bin/sh
# tools/seedimport.sh <seed-id>: copy a sub-agent's deliverables from /tmp/seed_<id>_out into seeded/<id>/
S="$1"
mkdir -p /verif/seeded/$S
cp /tmp/seed_${S}_out/patch.diff /tmp/seed_${S}_out/demo.py /tmp/seed_${S}_out/meta.json /verif/seeded/$S/ && ls /verif/seeded/$S
