#!/bin/sh
# tools/seedmatrix.sh : every stored seed against the check of its own property; prints one line per seed
cd /verif
for d in seeded/*/; do
  S=$(basename $d); P=$(echo $S | cut -c1-3)
  R=$(tools/seedtest.sh $S $P 2>&1 | grep "VIOLATION\|OK prop\|patch does not apply" | head -1)
  echo "$S: $R"
done
