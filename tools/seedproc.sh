#!/bin/sh
# tools/seedproc.sh <seed-id> <property-id>... : import a sub-agent's deliverables, confirm them in a scratch
# worktree (seedverify), run the named checks against the change (seedtest), remove the sub-agent's worktree.
# Serialised by a lock because seedtest applies the patch to /repo itself.
S="$1"; shift
exec 9>/tmp/seedproc.lock; flock 9
{
  echo "=== import $S"; /verif/tools/seedimport.sh "$S"
  echo "=== verify $S"; /verif/tools/seedverify.sh "$S"
  echo "=== checks $S: $*"; /verif/tools/seedtest.sh "$S" "$@"
  git -C /repo worktree remove --force "/tmp/wt_$S" 2>/dev/null
  rm -rf "/tmp/seed_${S}_out"
} > "/tmp/seedproc_$S.log" 2>&1
