#!/bin/sh
# tools/seedtest.sh <seed-id> <property-id>...  : apply seeded/<seed-id>/patch.diff to /repo, run the checks, undo.
S="$1"; shift
cd /repo && git apply "/verif/seeded/$S/patch.diff" || { echo "patch does not apply"; exit 3; }
cd /verif
for P in "$@"; do
  ./check "$P" --tier quick 2>&1 | tail -3
  echo "== $S vs $P exit=$?"
done
cd /repo && git checkout -- . && git status --short
